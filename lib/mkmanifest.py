#!/usr/bin/env python3
"""Writes /verif/MANIFEST.json from lib/props.py (single source of truth for commands and levels)."""
import json, os, sys
sys.path.insert(0, os.path.dirname(os.path.abspath(__file__)))
from props import PROPS, NOT_APPLICABLE, MANIFEST_TEXT

checks = []
for pid in sorted(PROPS):
    t = MANIFEST_TEXT[pid]
    checks.append(dict(
        property_id=pid,
        quick_cmd="./check %s --tier quick" % pid,
        thorough_cmd="./check %s --tier thorough" % pid,
        evidence_file="/verif/evidence/%s.json" % pid,
        replay_cmd_template="./check %s --replay {path}" % pid,
        engine="simkit",
        level_claimed=dict(category=PROPS[pid]["level"], text=t["text"], design_ref=t["design_ref"]),
        level_note=t["note"],
        technique=t["technique"],
    ))
m = dict(
    version=1,
    setup_cmd="./check --setup",
    hooks=dict(guard="XTL_VERIF", enable="none needed: no guarded hook exists in /repo; harnesses use existing seams (template parameters, streambufs, -Wl,--wrap=readlink, placement new, replaced operator new)",
               baseline_off_cmd="cmake --build /repo/_build && ctest --test-dir /repo/_build -j8 --timeout 900",
               source_commits=[], add_only=True),
    engines=[dict(name="simkit", path="/verif/sim", serves_properties=sorted(PROPS),
                  kind_free_text="seeded deterministic simulation: plans (operations + attached faults) as data, actors on shared state, reference models, fault injection through existing seams, ddmin minimisation, replay gating")],
    checks=checks,
    not_applicable=[dict(property_id=k, reason=v) for k, v in sorted(NOT_APPLICABLE.items())],
    notes="See DESIGN.md. Exit 2 from a check means the machinery failed (build error, non-reproducible replay), never a violation.",
)
json.dump(m, open(os.path.join(os.path.dirname(__file__), "..", "MANIFEST.json"), "w"), indent=1)
print("MANIFEST.json: %d checks, %d not applicable" % (len(checks), len(m["not_applicable"])))
