"""Tables the driver reads: harness build specs and per-property batches."""

def _fs_units():
    cfgs = []   # (ct, N, layout, throw, thorough_only, weight)
    for n in (1, 7, 16, 255):
        for t in (0, 1):
            cfgs.append(("char", n, 0, t, False, 4))
    cfgs += [("char", 256, 1, 0, False, 4), ("char", 256, 1, 1, False, 4), ("char", 300, 1, 1, False, 3)]
    # capacities at the other boundary of a length encoding: 2^16 for char (size field), 2^16-1 / 2^16 for char16_t (packed / size field)
    cfgs += [("char", 65536, 1, 1, False, 1), ("char16_t", 65535, 0, 1, True, 1), ("char16_t", 65536, 1, 0, True, 1)]
    for n in (8, 55):
        for t in (0, 1):
            cfgs.append(("char", n, 2, t, False, 4))
    cfgs += [("char16_t", 8, 0, 0, False, 3), ("char16_t", 8, 0, 1, False, 3), ("char16_t", 300, 0, 0, False, 2)]
    cfgs += [("wchar_t", 8, 0, 0, False, 2), ("wchar_t", 8, 0, 1, False, 2), ("wchar_t", 300, 0, 1, False, 2), ("char32_t", 16, 0, 1, True, 1)]
    cfgs += [("char", 254, 0, 1, True, 2), ("char", 55, 0, 0, True, 2), ("char", 300, 2, 1, True, 2), ("char16_t", 70000, 1, 1, True, 1)]
    # the empty capacity: every growing operation has to be refused, also the ones that "always fit"
    cfgs += [("char", 0, 0, 1, False, 1), ("char", 0, 2, 1, False, 1), ("wchar_t", 0, 0, 1, False, 1)]
    lay = ["packed", "sizefield", "strlen"]
    units = [dict(src="fstring_main.cpp")]
    for ct, n, l, t, th, w in cfgs:
        name = "%s_%s_%d_%s" % (lay[l], ct.replace("_t", ""), n, "throw" if t else "silent")
        defs = ["FS_NAME=" + name, "FS_CT=" + ct, "FS_N=%d" % n, "FS_LAYOUT=%d" % l, "FS_THROW=%d" % t, "FS_WEIGHT=%d" % w]
        if th:
            defs.append("FS_THOROUGH")
        units.append(dict(src="fstring_cfg.cpp", defs=defs))
    return units


def _bs_units():
    units = []
    first = True
    for blk in ("uint8_t", "uint16_t", "uint32_t", "uint64_t"):
        for fa in (0, 1):
            defs = ["BS_NAME=%s_%s" % (blk.replace("_t", ""), "failalloc" if fa else "stdalloc"), "BS_BLOCK=" + blk, "BS_FAILALLOC=%d" % fa]
            if first:
                defs.append("BS_MAIN")
                first = False
            units.append(dict(src="bitset.cpp", defs=defs))
    return units


def _sq_units():
    units = []
    first = True
    for fam in (0, 1):
        for t in ("int", "double"):
            defs = ["SQ_FAMILY=%d" % fam, "SQ_T=" + t]
            if first:
                defs.append("SQ_MAIN")
                first = False
            units.append(dict(src="seq.cpp", defs=defs))
    units.append(dict(src="seq.cpp", defs=["SQ_FAMILY=0", "SQ_T=FT", "SQ_THROWING"]))
    units.append(dict(src="seq.cpp", defs=["SQ_FAMILY=0", "SQ_T=int", "SQ_FLAG_BLOCK=uint8_t"]))
    units.append(dict(src="seq.cpp", defs=["SQ_FAMILY=0", "SQ_T=double", "SQ_FLAG_BLOCK=uint16_t"]))
    return units


HARNESSES = {
    "dispatch": dict(units=[dict(src="dispatch.cpp")]),
    "closure": dict(units=[dict(src="closure.cpp")]),
    "iter": dict(units=[dict(src="iter.cpp")]),
    "seq": dict(units=_sq_units()),
    "any": dict(units=[dict(src="any.cpp")]),
    "variant": dict(units=[dict(src="variant.cpp"), dict(src="variant_wide.cpp", drop_flags=["-fsanitize=bounds"])]),
    "bitset": dict(units=_bs_units()),
    "fstring": dict(units=_fs_units()),
    "sysenv": dict(units=[dict(src="sysenv.cpp")], ldflags=["-Wl,--wrap=readlink"]),
    "hashmt": dict(units=[dict(src="hashmt.cpp")]),
}

REAL_ALL = "real code: the xtl headers named by the property's anchors, compiled from /repo/include at check time"

PROPS = {
    "C20": dict(
        level="fault_enumeration",
        batches=dict(
            quick=[dict(harness="sysenv", build="san", runs=4000, wall_cap=300),
                   dict(harness="sysenv", build="plain", runs=1500, offset=4000, wall_cap=300),
                   dict(harness="sysenv", build="tsan", runs=1500, offset=6000, cfg="random", wall_cap=300)],
            thorough=[dict(harness="sysenv", build="san", runs=40000, wall_cap=1200),
                      dict(harness="sysenv", build="tsan", runs=30000, offset=200000, cfg="random", wall_cap=1200),
                      dict(harness="sysenv", build="plain", runs=120000, offset=40000, wall_cap=1200),
                      dict(harness="sysenv", build="plain", runs=60, offset=160000, valgrind=True, workers=8, wall_cap=1200)],
        ),
        rule=("a case is one simulated history of executable_path()/prefix_path() calls against a generated "
              "/proc/self/exe target (length, depth, byte classes from the plan) delivered through the wrapped readlink, "
              "optionally with an injected error return and with stale errno values (24 kinds, incl. EINTR and every value a failed readlink leaves) left by 'earlier calls'; "
              "directories of conventional names (bin, lib, usr, ...) appear at any depth; a 'concurrent_callers' step has three callers ask at once "
              "(ThreadSanitizer build: truly concurrent, a static buffer shared between calls is a reported race; other builds: one after the other, values only); one simulated installation "
              "(all calls against one target) runs in one forked process, because a program's own path does not change while it runs: hidden per-process state "
              "in the code under test is neither punished when harmless (a cached result) nor leaked into the next installation; a call that does not return within 20 s is a hang violation. "
              "The 'sweep' configuration enumerates every total length 2..PATH_MAX-1 in one history (one process per length), each also with an error return. "
              "Non-trivial: at least two calls and, when the plan attaches faults, at least one delivered. Distinct: distinct run digests (FNV-1a over every returned string)."),
        probes=["readlink_error", "len_ge_1024",
                "len_eq_PATH_MAX_minus_1", "depth_1", "depth_2", "stale_EINTR_in_errno_before_the_call",
                "stale_errno_is_one_readlink_could_have_left"],
        components=dict(real=["include/xtl/xsystem.hpp (executable_path, prefix_path)", "include/xtl/xplatform.hpp (endianness)"],
                        stub=["readlink(2) for \"/proc/self/exe\" via -Wl,--wrap=readlink (kernel truncation semantics, no terminator, errno)",
                              "stack dirtied with seeded garbage before each call (plain build)"]),
        assumptions=["Linux semantics of readlink on /proc/self/exe: canonical absolute path, no NUL, at most PATH_MAX-1 bytes, truncated silently to the caller's buffer",
                     "only the Linux branch of executable_path() is compiled and exercised"],
    ),
}

_FS_COMPONENTS = dict(real=["include/xtl/xbasic_fixed_string.hpp (all three storage layouts, both error policies, char and char16_t)", "include/xtl/xhash.hpp"],
                        stub=["std::basic_string reference model", "simulated streambufs (short reads, early EOF, throwing underflow, sink that fills up)",
                              "dirty arena memory with canary/ASan red zones under every object", "exact-size heap blocks for every pointer/range argument"])
_FS_ASSUME = ["std::basic_string of libstdc++ is the specification of every operation the two types share",
              "documented deviations are modelled, not compared: resize(n) pads with ' ', moved-from strings keep their value, NUL-truncating paths are not compared on strings that contain NUL, silent policy never exceeds N (caller precondition), iterator arguments lie in [begin,end]",
              "wchar_t/char32_t instantiations do not compile on this platform and are not exercised"]

PROPS["C01"] = dict(
    level="exploration",
    batches=dict(
        quick=[dict(harness="fstring", build="san", workload="c01", runs=400000, wall_cap=600)],
        thorough=[dict(harness="fstring", build="san", workload="c01", runs=2000000, wall_cap=2400),
                  dict(harness="fstring", build="plain", workload="c01", runs=8000000, offset=2000000, wall_cap=2400),
                  dict(harness="fstring", build="plain", workload="c01", runs=300, offset=10000000, valgrind=True, workers=8, wall_cap=1200)],
    ),
    rule=("a case is one seeded history (1-40 operations, geometric) over three fixed strings of one instantiation (layout x N x char type x policy chosen per run) "
          "and their std::basic_string models; every public member/free function overload is an operation; arguments are interpreted modulo the model state with boundary bias; "
          "swarm options per run: argument aliasing, embedded NUL through counted overloads, stream faults, disabled operation families. "
          "Non-trivial: at least two state-changing steps and, if the plan attaches stream faults, at least one delivered. Distinct: distinct run digests "
          "(FNV-1a over operation, outcome, returned values and the observable state of all three strings after every step)."),
    probes=["reached_len_N", "op_at_len_N", "iterator_insert_at_end", "iterator_replace_empty_range", "search_with_defaulted_position",
            "strlen_layout_op_with_stale_bytes", "N255_default_constructed", "stream_short_reads", "stream_early_eof_reached",
            "stream_underflow_threw", "stream_sink_refused", "aliasing_op", "strlen_layout_resize_grow", "single_pass_input_range", "bad_position_under_C01", "random_access_range_that_is_not_contiguous", "own_terminator_as_source_character"],
    components=_FS_COMPONENTS, assumptions=_FS_ASSUME,
)
PROPS["C02"] = dict(
    level="exploration",
    batches=dict(
        quick=[dict(harness="fstring", build="san", workload="c02", runs=300000, wall_cap=600)],
        thorough=[dict(harness="fstring", build="san", workload="c02", runs=2000000, wall_cap=2400),
                  dict(harness="fstring", build="plain", workload="c02", runs=8000000, offset=2000000, wall_cap=2400),
                  dict(harness="fstring", build="plain", workload="c02", runs=300, offset=10000000, valgrind=True, workers=8, wall_cap=1200)],
    ),
    rule=("as C01 but only throwing-policy instantiations; positions are drawn from {0..N+2, npos} and counts may exceed the room left; frequent fill steps bring a string to length N-1 or N. "
          "Before each call the std::basic_string model predicts out_of_range / length_error / success; the exception type must match and after an exception every string must equal its model (unchanged). "
          "Canary-filled, ASan-poisoned red zones surround every object; pointer and range arguments live in exact-size heap blocks. "
          "Non-trivial: at least two state-changing steps (a rejected call counts). Distinct: distinct run digests."),
    probes=["length_error_observed", "out_of_range_observed", "exception_at_len_N", "exception_at_len_N-1", "op_at_len_N", "huge_absolute_count", "generated_range_of_more_than_2^32_elements", "aliasing_source_runs_on_into_the_callers_record"],
    components=_FS_COMPONENTS, assumptions=_FS_ASSUME + ["when a bad position and an over-long result apply to the same call either exception is accepted"],
)
PROPS["C14"] = dict(
    level="exploration",
    batches=dict(
        quick=[dict(harness="fstring", build="san", workload="c14", runs=300000, wall_cap=600),
               dict(harness="hashmt", build="tsan", runs=3000, offset=300000, wall_cap=300),
               dict(harness="hashmt", build="opt", runs=20000, offset=310000, wall_cap=300)],
        thorough=[dict(harness="fstring", build="san", workload="c14", runs=2000000, wall_cap=2400),
                  dict(harness="fstring", build="plain", workload="c14", runs=8000000, offset=2000000, wall_cap=2400),
                  dict(harness="hashmt", build="tsan", runs=60000, offset=10000000, wall_cap=1200),
                  dict(harness="hashmt", build="opt", runs=400000, offset=11000000, wall_cap=1200)],
    ),
    rule=("(i) history half: C01-style histories in which std::hash of every string is compared after every step with the reference MurmurHash64A of the model characters (char), "
          "and 'hash' steps drive a second string to equal content through a detour that leaves different stale bytes, or rebuild the content in other layouts/capacities, and require equal hashes. "
          "(ii) pure half, evaluated on simulated buffers only: hash_bytes/murmur2_x86/murmur2_x64 on the model bytes copied into exact-size heap blocks at alignments 0..7 and in place in the arena, "
          "seeds from the plan, against an independently written reference (counter c14.byte_hash_evaluations). "
          "(iii) concurrent callers (harness hashmt, ThreadSanitizer build): every step releases three caller threads at once, each hashing its own seeded keys "
          "(0 to 4200 bytes, every alignment) and one key all of them read, with the three byte hashes and std::hash of a fixed string; every value is compared with the reference, "
          "and because the callers share no happens-before edge any state shared between calls is a reported data race independent of the kernel's schedule (counter c14.concurrent_hash_evaluations). "
          "Non-trivial: at least two state-changing steps. Distinct: distinct run digests (include every hash value)."),
    probes=["hash_with_stale_bytes", "hash_cross_layout", "hash_whole_blocks", "hash_four_blocks_or_more", "hash_of_long_key", "hash_of_null_empty_key", "three_callers_hashed_at_once"],
    components=_FS_COMPONENTS, assumptions=_FS_ASSUME + ["std::hash<xbasic_fixed_string<char16_t>> hashes size() bytes, i.e. half the characters; that is a deterministic function of size() and the characters, so only cross-history equality is required for char16_t"],
)

PROPS["C03"] = dict(
    level="exploration",
    batches=dict(
        quick=[dict(harness="bitset", build="san", runs=150000, wall_cap=600)],
        thorough=[dict(harness="bitset", build="san", runs=1000000, wall_cap=2400),
                  dict(harness="bitset", build="plain", runs=5000000, offset=1000000, wall_cap=2400),
                  dict(harness="bitset", build="plain", runs=300, offset=6000000, valgrind=True, workers=8, wall_cap=1200)],
    ),
    rule=("a case is one seeded history (1-40 operations) over three owning bitsets and two view handles onto two caller-owned block arrays (dirty contents, guard blocks on both sides) "
          "of one block type x allocator configuration, each with a std::vector<bool> model; an owner actor also writes viewed bits directly. Sizes are biased to 0, w-1, w, w+1, k*w, k*w+r; shift amounts to 0, <w, w, k*w, k*w+r, >=size; a 'big_shift' step shifts a temporary owner or view of more than 2^w blocks (8-bit blocks always, 16-bit blocks in one of eight cases; about 40 blocks for wider types) by amounts around 2^w blocks. "
          "After every step every bitset and view is compared with its model through operator[], const/non-const/reverse iteration, count/any/all/none, block_count, the raw blocks read through data() "
          "(so unused bits must be zero), == against a freshly built equal bitset and != against one differing in one bit; caller memory outside the viewed blocks must be untouched. "
          "Non-trivial: at least two state-changing steps and, when the plan attaches allocation failures, at least one delivered. Distinct: distinct run digests."),
    probes=["grow", "grow_with_true_across_partial_block", "resize_to_zero", "whole_block_shift", "shift_ge_size", "whole_bitset_op_on_empty", "at_in_slack_of_last_block",
            "owner_write_behind_view", "view_constructed_over_dirty_memory", "view_handle_copied", "write_through_reverse_iterator", "compared_equal",
            "recovered_after_allocation_failure", "allocation_failure_in_resize", "size_near_SIZE_MAX_refused", "moved_from_bitset_used_further", "bit_swapped_with_itself", "more_than_INT_MAX_set_bits", "allocation_failure_in_push_back",
            "shift_over_more_than_2^w_blocks_possible", "shift_skips_2^w_blocks_or_more", "caller_iterator_threw", "compared_with_view_over_own_storage"],
    components=dict(real=["include/xtl/xdynamic_bitset.hpp (xdynamic_bitset with std::allocator and a custom allocator, xdynamic_bitset_view, xbitset_reference, xbitset_iterator)", "include/xtl/xspan_impl.hpp (as the view's storage)"],
                    stub=["std::vector<bool> reference model", "FailingAllocator (k-th allocation of a step fails)", "caller-owned block arrays with guard blocks and seeded dirty contents", "owner actor writing viewed memory directly"]),
    assumptions=["copying or assigning a view copies the handle; view.resize(n) is legal only for n == size() and throws otherwise (as the code defines them)",
                 "moved-from bitsets are unspecified and are given a definite value again inside the same step",
                 "&=, |=, ^= and the binary operators are only applied to operands of equal size; set/reset/flip(pos) only with pos < size()",
                 "the property does not speak about allocation failure: after a delivered bad_alloc in resize, push_back, reserve, assign the object must still be canonical (unused bits zero, block_count() == ceil(size()/w), count() consistent - all stated by the property without exception), which value it has is not asked; after a failed (defaulted, member-wise) copy assignment only assignability and destructibility are required; the value is then re-established by the harness"],
)

PROPS["C05"] = dict(
    level="fault_enumeration",
    batches=dict(
        quick=[dict(harness="variant", build="san", runs=150000, wall_cap=600),
               dict(harness="variant", build="san", runs=6000, offset=150000, enumerate=True, wall_cap=600)],
        thorough=[dict(harness="variant", build="san", runs=1000000, wall_cap=2400),
                  dict(harness="variant", build="san", runs=40000, offset=1000000, enumerate=True, wall_cap=2400),
                  dict(harness="variant", build="plain", runs=400000, offset=1040000, enumerate=True, wall_cap=2400),
                  dict(harness="variant", build="plain", runs=200, offset=1440000, valgrind=True, workers=8, wall_cap=1200)],
    ),
    rule=("a case is one execution of a seeded history (1-15 operations) over three variant<int, NC, TC, TM, TM2, std::string> objects (NC: nothrow copy+move, TC: throwing copy, TM/TM2: throwing move; "
          "all lifetime-tracked), one variant over closure wrappers (xget) and one with 34 alternatives; two further configurations run the same kind of history over variant<int, DA, DB> "
          "(lifetime-registered alternatives with defaulted, i.e. trivial, copy/move assignment) and variant<int, double, TT> (every alternative trivially destructible, TT's constructors throw, doubles include NaN and signed zeros). Random batches attach 'throw at the k-th constructor/assignment of this step' to steps; "
          "enumerate batches first run each history fault-free, counting the fault points reached in every step, then re-execute it once per (step, k) with exactly that throw injected. "
          "Oracles after every step: lifetime registry (construct once, no use after destruction, destroy once, live objects == objects held), every observer "
          "(index, valueless_by_exception, holds_alternative, get<I>, get<T>, get_if, visit) agrees with the model; without a throw the model is std::variant's result; "
          "after a throw each variant is valueless or holds its pre-call value or the requested one, sources of copies are unchanged. "
          "Non-trivial: at least two state-changing steps and, if a fault is attached, it fired. Distinct: distinct run digests."),
    probes=["valueless_reached", "valueless_by_emplace", "valueless_by_assignment", "valueless_by_swap", "valueless_moved_or_copied", "valueless_assigned_from",
            "valueless_compared", "valueless_visited", "swap_threw", "swap_with_valueless", "same_index_assignment_threw", "self_assignment", "self_swap",
            "three_variant_visit", "more_than_32_alternatives_dispatch", "constructor_threw", "moved_from_alternative",
            "unordered_values_compared", "assignment_switching_alternative_defaulted_or_trivial_set", "multi_visit_with_index_ge_32_not_last", "converting_assignment_threw_in_constructor",
            "wide_last_alternative_held", "wide_valueless_reached", "assigned_from_const_rvalue_variant", "rvalue_variant_visited", "rvalue_variant_visited_as_second", "assigned_from_nonconst_lvalue_variant"],
    components=dict(real=["include/xtl/xvariant_impl.hpp (mpark variant: construction, assignment, emplace, swap, relational operators, switch-based visitation, hash)", "include/xtl/xvariant.hpp (xget)"],
                    stub=["lifetime-tracked alternative types with a fault point in every constructor and assignment", "recording visitors", "dirty, red-zoned arena memory under every variant"]),
    assumptions=["the table-based visitation path is compiled out on GCC/Clang in C++14 (MPARK_VARIANT_SWITCH_VISIT) and cannot be reached here",
                 "the tracked types themselves give the strong guarantee (they throw before modifying anything), so every anomaly is the variant's",
                 "a moved-from alternative keeps its identity and is marked; the model accepts a source of a move being unchanged or moved-from"],
)

PROPS["C06"] = dict(
    level="fault_enumeration",
    batches=dict(
        quick=[dict(harness="any", build="san", runs=150000, wall_cap=600),
               dict(harness="any", build="san", runs=8000, offset=150000, enumerate=True, wall_cap=600)],
        thorough=[dict(harness="any", build="san", runs=1000000, wall_cap=2400),
                  dict(harness="any", build="san", runs=60000, offset=1000000, enumerate=True, wall_cap=2400),
                  dict(harness="any", build="plain", runs=600000, offset=1060000, enumerate=True, wall_cap=2400),
                  dict(harness="any", build="plain", runs=200, offset=1660000, valgrind=True, workers=8, wall_cap=1200)],
    ),
    rule=("a case is one execution of a seeded history (1-15 operations) over three xtl::any objects and nineteen payload types on both sides of the in-place/heap threshold "
          "(int, two small nothrow-move tracked types, shared_ptr and a reference-like type whose assignment writes through to caller cells in place; a large, a throwing-move and an over-aligned tracked type, std::string, a type with an extra T(T&) copy constructor, a heap-sized reference-like type, a tree node with an initializer_list constructor and a type whose memberwise assignment can throw half-way on the heap; a plain pointer in place, against which array-typed casts must fail). "
          "Value assignment also takes the any's own content as argument (a = any_cast<T&>(a), also moved). The caller cells behind reference-like payloads must never change (the container may only construct and destroy payloads) and a copy of an any must never run T(T&). "
          "A fault is 'the k-th fault point of this step fails', a fault point being a payload copy/move (throws) or an allocation by xtl::any (operator new is replaced; bad_alloc). "
          "Random batches attach faults to steps; enumerate batches re-execute each sampled history once per (step, k). Oracles after every step: lifetime registry, "
          "has_value/empty/type and pointer any_cast for all eight types agree with the model, live tracked objects == objects held; a failed copy/value assignment leaves the target with its previous value. "
          "Non-trivial: at least two state-changing steps and, if a fault is attached, it fired. Distinct: distinct run digests."),
    probes=["swap_in_place_with_heap", "self_swap_in_place", "self_swap_heap", "self_swap_empty", "swap_same_type_in_place", "swap_same_type_heap", "swap_empty_with_nonempty",
            "assignment_fault_with_nonempty_target", "cast_with_cv_qualified_type", "cast_with_other_type", "moved_from_object_reused", "moved_from_observed",
            "copy_mutated_independently", "constructor_threw", "self_copy_assignment", "self_move_assignment", "value_assignment_from_own_content", "array_cast_on_pointer_payload", "assigned_from_any_inside_own_content"],
    components=dict(real=["include/xtl/xany.hpp (any, any_cast in pointer/reference/value/rvalue forms, swap, vtables for in-place and heap storage)"],
                    stub=["lifetime-tracked payload types with a fault point in every copy/move", "replaced global operator new/delete (allocation failure as a fault point)", "dirty, red-zoned arena memory under every any"]),
    assumptions=["a moved-from any may be empty or still hold an object of the same type; both are accepted as 'valid to query, assign or destroy'",
                 "over-aligned means alignas(16), the largest alignment plain operator new guarantees in C++14",
                 "only xtl's own code runs with faults enabled; the harness' temporaries are built and destroyed with faults suspended"],
)

PROPS["C11"] = dict(
    level="exploration",
    batches=dict(
        quick=[dict(harness="seq", build="san", runs=200000, wall_cap=600)],
        thorough=[dict(harness="seq", build="san", runs=1500000, wall_cap=2400),
                  dict(harness="seq", build="plain", runs=6000000, offset=1500000, wall_cap=2400),
                  dict(harness="seq", build="plain", runs=300, offset=7500000, valgrind=True, workers=8, wall_cap=1200)],
    ),
    rule=("a case is one seeded history (1-30 operations) over two containers of one kind (xoptional_vector, xoptional_array<1|4|9>, xcomplex_vector, xcomplex_array<1|4|9>; int and double) "
          "placed in seeded dirty memory (default-initialised `C x;` and value-initialised `C()` placement), with a model vector of pairs. Actors: the container's owner (constructors called with the container's own size, "
          "resize in three forms), an element-proxy actor writing through operator[], at, front, back, iterator, reverse iterator and operator-> in every value form, and a storage actor writing the two underlying storages directly. "
          "After every step both storages must have size() elements and element i must read as (first[i], second[i]) through every access path, const and non-const. "
          "One further configuration family (xoptional_vector/array over a lifetime-tracked element type whose construction from a value, copy construction and copy assignment can throw) "
          "attaches 'throw at the k-th element construction of this call' to constructor and resize steps: after the injected throw both storages must still be as long as size() "
          "(what the storages then hold becomes the model), every stored element must be a live object, and nothing may leak. "
          "Non-trivial: at least two state-changing steps. Distinct: distinct run digests."),
    probes=["array_default_initialised_over_dirty_memory", "array_value_initialised", "resize_to_zero", "grow_from_empty", "shrink", "write_through_reverse_iterator",
            "storage_write_observed_through_proxy", "compared_equal", "compared_unequal", "at_out_of_range", "resize_threw", "constructor_threw", "resize_with_own_element", "proxy_held_across_a_write", "proxy_assigned_to_proxy", "proxy_of_another_container_assigned", "compared_special_floating_point_values"],
    components=dict(real=["include/xtl/xoptional_sequence.hpp", "include/xtl/xcomplex_sequence.hpp", "include/xtl/xdynamic_bitset.hpp (flag storage)", "include/xtl/xoptional.hpp / xcomplex.hpp (element proxies)"],
                    stub=["model vector of pairs", "seeded dirty memory under every container object (the only way a defaulted constructor that forgets a storage becomes deterministic)", "lifetime-tracked element type with injected constructor/assignment throws (one configuration family)"]),
    assumptions=["moved-from containers are unspecified and are re-created inside the same step",
                 "proxy-to-proxy assignment and assignment of xcomplex<T,T> to an xcomplex<T&,T&> proxy do not compile and are not generated (compile-time facts outside this technique)",
                 "allocation failure is not injected: the property does not speak about exceptions and resizing two independent vectors cannot be atomic",
                 "element-constructor throws are injected into constructors and resize only, and only the property's own words (storages as long as size(), element i is the pair of slot i) are required afterwards; default construction of an element never throws because xtl::missing<T>() is noexcept"],
)

PROPS["C12"] = dict(
    level="exploration",
    batches=dict(
        quick=[dict(harness="iter", build="san", runs=300000, wall_cap=600)],
        thorough=[dict(harness="iter", build="san", runs=2000000, wall_cap=2400),
                  dict(harness="iter", build="plain", runs=8000000, offset=2000000, wall_cap=2400)],
    ),
    rule=("a case is one seeded walk (1-40 steps) of two walker actors, each holding an iterator of the run's kind and a model index, over a container of 0-40 elements "
          "(kinds: bitset iterators of three block types incl. const; optional/complex vector and array iterators: iterator, const_iterator through cbegin/cend and through the const overloads of begin/end, reverse_iterator, const_reverse_iterator through the const overloads of rbegin/rend; xstepping_iterator with steps 1,2,3,5; key and value iterators over a map; "
          "a minimal, range-checked iterator deriving from xrandom_access_iterator_base and xrandom_access_iterator_ext; a bitset view of more than 2^31 bits over untouched calloc memory and a stepping iterator with a step above 2^31 over a PROT_READ mapping, so that positions, differences and steps do not fit 32 bits). Steps: ++ -- it++ it-- += -= it+n n+it it-n it[n] a-b, the six comparisons, dereference, write, the size_t overloads, "
          "full forward and backward traversal, container resize with walkers re-seated. Every result is compared with index arithmetic on the model; both walkers are re-validated after every step. "
          "There is no fault or environment dimension in this property (stated in DESIGN.md 4.8). Non-trivial: at least two position-changing steps. Distinct: distinct run digests."),
    probes=["post_increment", "write_through_iterator", "size_t_overload_used", "traversal_of_empty_container", "container_resized_walkers_reseated", "positions_beyond_2^31", "assigned_over_an_iterator_with_another_step"],
    components=dict(real=["include/xtl/xiterator_base.hpp (xbidirectional_iterator_base, xrandom_access_iterator_base, xrandom_access_iterator_ext, xkey_iterator, xvalue_iterator, xstepping_iterator)",
                          "include/xtl/xdynamic_bitset.hpp (xbitset_iterator)", "include/xtl/xoptional_sequence.hpp (xoptional_iterator)", "include/xtl/xcomplex_sequence.hpp (xcomplex_iterator)"],
                    stub=["integer model index per walker", "a minimal derived iterator as in the repository's own test"]),
    assumptions=["offsets keep every result inside [begin, end]; operators a kind does not provide (bidirectional kinds have no <, +, -) are not called",
                 "xstepping_iterator is only used with a positive step and a range whose length is a multiple of the step"],
)

PROPS["C07"] = dict(
    level="exploration",
    batches=dict(
        quick=[dict(harness="closure", build="san", runs=150000, wall_cap=600)],
        thorough=[dict(harness="closure", build="san", runs=1500000, wall_cap=2400),
                  dict(harness="closure", build="plain", runs=4000000, offset=1500000, wall_cap=2400),
                  dict(harness="closure", build="plain", runs=300, offset=5500000, valgrind=True, workers=8, wall_cap=1200)],
    ),
    rule=("a case is one seeded history (1-25 operations) over three referents (a copy-counting tracked object, a flag, two doubles, an int each), an owner actor that writes them directly, and up to four wrapper handles. "
          "Wrappers are built by closure, const_closure, closure_pointer, const_closure_pointer, optional(x, flag), xmasked_value, proxy_wrapper and xcomplex from source expressions of category "
          "{lvalue, const lvalue, prvalue, xvalue, const xvalue}; for rvalues the source temporary lives on the heap and is freed before the step ends (the injected end of lifetime). "
          "optional and xmasked_value are also built with closures of different kinds (lvalue value with an own flag, own value with the caller's flag). "
          "Further steps write through a wrapper, copy it, assign or move-assign one into another, swap two, take its address (operator& on lvalue and const lvalue), destroy it, and construct/assign owning optionals from reference proxies (lvalue, const, moved, temporary) and back. "
          "After every step every live wrapper is read through its lvalue, const and rvalue member accessors and the free value()/has_value()/real()/imag() functions; every rvalue accessor is applied to a temporary copy of the wrapper on the heap that is destroyed BEFORE the result is read (it must be an independent value for value closures and a reference to exactly the referent / the caller's flag for reference closures): "
          "wrappers built from an lvalue must read the referent's current value, designate its address (also through operator& / operator->), must not have copied it, and keep designating it after assignment (no rebinding); "
          "wrappers built from a temporary must read their own value, at an address that is neither a referent nor the dead temporary. forward_sequence and bitset element references are checked by dedicated steps. "
          "The closure_type trait table is evaluated once as a precondition of the model (static half; not simulation). Non-trivial: at least two state-changing steps. Distinct: distinct run digests."),
    probes=["wrapper_built_from_lvalue", "wrapper_built_from_temporary_that_died", "write_through_reference_wrapper", "owner_write_behind_wrapper", "reference_wrapper_copied", "value_wrapper_copied",
            "wrapper_assigned", "wrapper_move_assigned", "wrappers_swapped", "swap_of_two_wrappers_onto_same_referent", "forward_sequence_checked", "bitset_reference_checked", "cross_closure_kind_assignment", "optional_element_proxies_checked"],
    components=dict(real=["include/xtl/xclosure.hpp", "include/xtl/xproxy_wrapper.hpp", "include/xtl/xoptional.hpp (closures, operator&)", "include/xtl/xmasked_value.hpp", "include/xtl/xcomplex.hpp (closures)", "include/xtl/xsequence.hpp (forward_sequence)", "include/xtl/xdynamic_bitset.hpp (xbitset_reference)"],
                    stub=["copy/move-counting tracked payload", "heap-allocated source temporaries whose lifetime the harness ends", "owner actor", "type-erased wrapper handles"]),
    assumptions=["the static half of the property (closure_type_t & co. on every cv/ref combination) is compile-time and outside this technique; only the entries the model relies on are evaluated, const-ness of by-value closures is not judged",
                 "the source of a moving assignment is unspecified: it may keep its value or receive the target's previous one (xclosure_wrapper move-assigns by swapping)",
                 "proxy-to-proxy assignment of xoptional<T&,B&> and assignment through const closures do not compile and are not generated"],
)

PROPS["C17"] = dict(
    level="exploration",
    batches=dict(
        quick=[dict(harness="dispatch", build="san", runs=200000, wall_cap=600)],
        thorough=[dict(harness="dispatch", build="san", runs=1500000, wall_cap=2400),
                  dict(harness="dispatch", build="plain", runs=6000000, offset=1500000, wall_cap=2400)],
    ),
    rule=("a case is one seeded history (2-40 steps) against one dispatcher kind: functor_dispatcher over basic_dispatcher (1, 2, 3 arguments; dynamic and static casting) with insert/overwrite/erase/dispatch, "
          "functor_dispatcher over basic_fast_dispatcher (1, 2, 3 arguments) with insert/overwrite/dispatch (per-class indices reset at the start of every run, one fast dispatcher per hierarchy), "
          "static_dispatcher (antisymmetric and symmetric, a type list that omits one class so that on_error is reachable; also with an explicitly different right-hand type list, and over two different hierarchies with base_rhs given), acyclic visitors (default, throwing and a user-written reporting catch-all policy whose own return value must come back, visitors implementing subsets, const and non-const) and cyclic visitors; two functor-dispatcher configurations are declared with a reference return type and must hand back the very object the handler returned a reference to. "
          "The hierarchy has four concrete classes, one derived from another. Handlers record their id, the addresses of the arguments they receive in order and the address of the undispatched extra argument. "
          "A dispatch must invoke exactly the handler the model holds for the tuple of dynamic types with exactly the caller's objects (swapped only under symmetric dispatch) and the extra argument itself, "
          "or - when never registered, erased, or only another permutation is registered - report an error and run no handler. "
          "In functor-dispatcher runs a registration may meet an injected allocation failure (global operator new is replaced; 'the k-th allocation inside this insert fails'): "
          "afterwards that tuple may dispatch to its previous handler, to the attempted one, or (if it had none) report an error, every other tuple must behave exactly as before, and later registrations must work. "
          "Non-trivial: at least two state-changing steps (registrations, erasures or successful dispatches). Distinct: distinct run digests."),
    probes=["dispatch_to_registered_tuple", "dispatch_to_unregistered_tuple", "only_other_permutation_registered", "registered_handler_erased", "handler_overwritten",
            "three_argument_dispatch", "symmetric_swap_taken", "static_dispatch_on_error", "static_dispatch_two_hierarchies", "visit_dispatched", "const_visit_dispatched", "catch_all_taken",
            "derived_visited_by_visitor_of_base_only", "cyclic_visit_dispatched", "registration_failed_with_bad_alloc", "dispatch_after_failed_registration", "handler_threw", "dispatcher_copied", "visitor_of_the_other_constness", "visitor_with_two_base_visitor_subobjects"],
    components=dict(real=["include/xtl/xmultimethods.hpp (static_dispatcher, basic_dispatcher, basic_fast_dispatcher, functor_dispatcher, casters)", "include/xtl/xvisitor.hpp (acyclic and cyclic visitors, catch-all policies)"],
                    stub=["recording handlers, executors and visitors", "model map from type tuple to handler id", "class hierarchy of four concrete classes", "replaced global operator new/delete (allocation failure inside a registration)"]),
    assumptions=["every class of the hierarchy carries its own XTL_IMPLEMENT_INDEXABLE_CLASS / XTL_DEFINE_VISITABLE", "static_dispatcher type lists are ordered most-derived first",
                 "one fast dispatcher per hierarchy and run: the process-global class indices are reset through the public accessor at the start of every run",
                 "an error is any of on_error, the catch-all policy, std::runtime_error or std::bad_function_call"],
)

PENDING = "claimed in DESIGN.md section 4 but its harness is not built yet in this tree; listed here until the check exists"
NOT_APPLICABLE = {
    "C04": "pure function of the operands of one call (presence flags and values); no history, fault position, schedule or environment to simulate (DESIGN.md 5)",
    "C08": "pure bit-level functions of 1-3 operands; decided by exhaustive enumeration, not by simulation (DESIGN.md 5)",
    "C09": "pure numeric functions of a half argument; exhaustive enumeration against a reference, not simulation (DESIGN.md 5)",
    "C10": "pure arithmetic on operand pairs; closure kind and ieee_compliant are compile-time configuration; nothing stateful or faultable (DESIGN.md 5)",
    "C13": "pure functions of a byte string; hostile input is still only input (DESIGN.md 5)",
    "C15": "pure functions of two integers over a compile-time matrix of type pairs (DESIGN.md 5)",
    "C16": "span is an immutable (pointer,size) pair; every operation is a function of (ptr,size,offset,count); checking mode is a compile-time switch (DESIGN.md 5)",
    "C18": "compile-time programs: the inputs are types and the outcomes static_assert results; nothing executes (DESIGN.md 5)",
    "C19": "build-configuration matrix (headers x standards x compilers x exception modes x link units); configuration enumeration, not simulation (DESIGN.md 5)",
}
for _p in ["C01", "C02", "C03", "C05", "C06", "C07", "C11", "C12", "C14", "C17"]:
    if _p not in PROPS:
        NOT_APPLICABLE[_p] = PENDING

MANIFEST_TEXT = {
    "C01": dict(
        text="seeded histories over every public operation of xbasic_fixed_string in all three storage layouts, both error policies, char, char16_t, wchar_t and char32_t, with arguments that alias the target (the string itself, pointers into it) and ranges of genuinely single-pass input iterators, compared step by step (returned values and full observable state, through every access path) with std::basic_string; objects live in dirty, red-zoned simulator memory; stream operations run on simulated streambufs with injected short reads, early EOF, read errors and a sink that fills up",
        design_ref="4.1",
        note="sampled histories, not a proof; std::basic_string is the specification; documented deviations (resize padding, NUL-truncating paths, silent-policy preconditions) are modelled rather than compared",
        technique="deterministic simulation: seeded operation histories against an executable reference model, stream fault injection, dirty-memory placement",
    ),
    "C02": dict(
        text="same simulator restricted to the throwing policy, with positions in {0..N+2,npos}, counts exceeding the room, and states biased to length N-1/N: the model predicts which exception must be thrown, the object must equal its model after the exception (nothing changed), and ASan red zones plus canaries around every object and exact-size argument blocks catch any access outside the buffer or the argument ranges",
        design_ref="4.2",
        note="sampled; an exception that is rejected half-way is xtl's analogue of a crash point; when both conditions apply either exception is accepted",
        technique="deterministic simulation with fault injection: rejected operations as crash points, failure-atomicity oracle, red-zone containment",
    ),
    "C03": dict(
        text="seeded histories over every operation of xdynamic_bitset (4 block types, std and custom allocator) and xdynamic_bitset_view (over dirty caller memory with guard blocks, also written by an owner actor), compared after every step with std::vector<bool> through every access path including the raw blocks (unused bits zero), with at(i) required to throw exactly for i >= size(); shifts are also run over more than 2^w blocks, and after an injected allocation failure in resize/push_back/reserve/assign the bitset must still be canonical",
        design_ref="4.3",
        note="sampled histories; after an injected allocation failure the invariants the property states without exception (unused bits zero, block_count, count) are required, the value (old or new) is not; after a failed member-wise copy assignment only usability",
        technique="deterministic simulation: seeded operation histories with several handles on shared memory against a reference model, allocator fault injection, dirty caller memory",
    ),
    "C05": dict(
        text="fault enumeration inside seeded histories: every sampled history over three variants with trivial, nothrow-movable, throwing-copy and throwing-move alternatives (plus further alternative sets: a variant with exactly 256 alternatives, an alternative constructible from anything, reference and const-reference closures of one type in one variant, defaulted-assignment alternatives with registered lifetimes, all-trivially-destructible alternatives with throwing constructors and NaN doubles, and an alternative assigned from an argument that lives inside the alternative being replaced) is executed fault-free and then once for every (step, k) with a throw injected at the k-th constructor/assignment reached in that step; a lifetime registry checks construct-once/destroy-once/no-use-after-destruction, every observer must agree with the model, results without a throw are std::variant's, results after a throw satisfy the property's disjunction (valueless, pre-call value, or requested value)",
        design_ref="4.4",
        note="histories are sampled, fault positions inside each sampled history are enumerated; the table-based visitation path does not exist on this toolchain",
        technique="deterministic simulation with fault injection: injected throws at enumerated fault points, lifetime registry, reference model of std::variant semantics",
    ),
    "C06": dict(
        text="fault enumeration inside seeded histories over three xtl::any objects and nineteen payload types on both sides of the in-place/heap threshold (among them a reference-like type whose assignment writes through to caller cells, a type with an extra T(T&) constructor, an over-aligned type, and a node that itself holds an any and is assigned from inside its own content): each sampled history runs fault-free and then once per (step, k) with the k-th payload copy/move throwing or the k-th allocation failing; a lifetime registry checks construct-once/destroy-once/no-use-after-destruction, has_value/type/any_cast for every type must agree with the model after every step, a failed copy or value assignment must leave the target's previous value, copies must be independent, casts succeed only for exactly the stored type",
        design_ref="4.5",
        note="histories are sampled, fault positions inside each sampled history are enumerated; global operator new is replaced in the harness binary",
        technique="deterministic simulation with fault injection: injected throws and allocation failures at enumerated fault points, lifetime registry, reference model",
    ),
    "C07": dict(
        text="dynamic half only: seeded histories in which wrappers of every kind are built from lvalues and from temporaries whose lifetime the simulator ends, then written through, copied, assigned, swapped and addressed while an owner actor writes the referents behind them; aliasing (same address, no copy, write-through both ways, no rebinding) and ownership (independent value that survives the temporary) are checked after every step through every accessor form - member and free, lvalue, const and rvalue, the rvalue forms on a temporary wrapper that is destroyed before the result is read - for same-kind and mixed-kind closures, including construction/assignment between owning optionals and reference proxies, swap and assignment of element proxies of the optional containers (flag closure = bitset reference), and forward_sequence in every cv/ref form",
        design_ref="4.6",
        note="the compile-time half (trait table over all cv/ref combinations, move-only payloads) is outside this technique and only evaluated as a model precondition",
        technique="deterministic simulation: seeded multi-actor aliasing/ownership histories, injected end of lifetime of source temporaries, copy-counting payloads",
    ),
    "C11": dict(
        text="seeded histories over the four parallel-storage containers (vector and array variants of xoptional_* and xcomplex_*), placed in dirty memory, driven by an owner, an element-proxy actor and a storage actor; after every step both storages must have size() elements and every element must read as the pair of its two storage slots through operator[], at, front, back, forward, const and reverse iterators and operator->, with writes landing in exactly that pair; one configuration family injects throws of the element type into constructors and resize and requires the storages to stay as long as size()",
        design_ref="4.7",
        note="sampled histories; dirty-memory placement is the fault that makes forgotten initialisation deterministic; element-constructor throws in one configuration family; no allocation faults",
        technique="deterministic simulation: seeded multi-actor histories against a reference model, dirty-memory placement",
    ),
    "C12": dict(
        text="seeded walks of two iterator-holding actors over every iterator kind built on the xtl iterator bases, among them stepping iterators over xtl's own iterators and over list iterators, const overloads, and offsets, steps and sizes of 2^31 and more; each step's result compared with index arithmetic (it++ returns the old position, (it+n)-it==n, it[n]==*(it+n), n+it==it+n, it-n undoes it+n, a<b iff b-a>0, <= > >= reversals, != negation, full traversals, size_t overloads). This is the weakest claim: the property has histories but no fault, clock or environment for the simulator to control",
        design_ref="4.8",
        note="sampled walks; purely a stateful differential check against an index model",
        technique="deterministic simulation (degenerate: seeded walker histories against an index model, no fault dimension)",
    ),
    "C14": dict(
        text="hash coherence across simulated histories: std::hash of every fixed string equals the reference MurmurHash64A of its characters after every step, equal contents reached by different histories (different stale bytes), in different layouts and capacities hash equally; the byte hashes are additionally evaluated on the buffers the simulation produces (also keys of several kilobytes and the empty key given as a null pointer) at every alignment in exact-size blocks against an independent reference (that half is evaluation of a pure function on simulated states and is reported under its own counter); three real caller threads hash at once under ThreadSanitizer, so that state shared between calls shows as a data race whatever the schedule; the same functions are also called before main() from a global constructor and compared with later calls, and keys end at the last byte before an unmapped page",
        design_ref="4.9",
        note="the pure half is sampled evaluation of a pure function, not more; little-endian 64-bit platform only",
        technique="deterministic simulation: hash invariants over seeded histories, placement/alignment/stale-byte variation, independent reference implementation",
    ),
    "C17": dict(
        text="seeded registration/erasure/dispatch histories against every dispatcher kind (map and fast functor dispatchers with 1-3 arguments and both casting policies, static dispatcher symmetric and antisymmetric, acyclic and cyclic visitors), with recording handlers: a dispatch must run exactly the handler the model holds for the tuple of dynamic types with the caller's own objects in registered order and the extra argument itself, or report an error and run nothing; an exception thrown by a handler must reach the caller unchanged; registrations of the functor dispatchers also meet injected allocation failures, after which only the previous or the attempted handler (or an error if there was none) may answer for that tuple; dispatchers are copied and the original changed, erased from or destroyed; functors are handed over as const lvalue, the caller's own lvalue (intact afterwards) or rvalue; the handler has to run on the executor the caller passed; in a quarter of the runs the steps are issued from three OS threads, one at a time, so registration and dispatch happen on different threads",
        design_ref="4.10",
        note="sampled histories over a four-class hierarchy; the fault dimension is the error path (lookups that must fail), allocation failure inside registrations, and the lazily assigned process-global class indices",
        technique="deterministic simulation: seeded registration/lookup histories against a reference map, error-path injection, reset of process-global state per run",
    ),
    "C20": dict(
        text="fault enumeration inside seeded histories: every /proc/self/exe target length 2..PATH_MAX-1 is delivered through the wrapped readlink (sweep configuration), each also with an injected error return, plus seeded random histories biased to the buffer boundaries with arbitrary name bytes and tails such as \" (deleted)\"; every simulated installation runs in a process of its own, so results may be cached; results compared byte for byte with the simulated target, under ASan/UBSan and in a plain build with a dirtied stack; 24 kinds of stale errno, directories of conventional names at any depth, and steps in which three callers ask at once (truly concurrent in a ThreadSanitizer batch, where state shared between calls is a reported race)",
        design_ref="4.11",
        note="trusts the wrapper's model of Linux readlink (silent truncation, no terminator, errno); only the Linux branch is compiled; samples path shapes, enumerates lengths",
        technique="deterministic simulation with fault injection: simulated readlink syscall (link-time wrap), enumerated lengths and error returns, seeded path shapes",
    ),
}
