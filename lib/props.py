"""Tables the driver reads: harness build specs and per-property batches."""

HARNESSES = {
    "sysenv": dict(units=[dict(src="sysenv.cpp")], ldflags=["-Wl,--wrap=readlink"]),
}

REAL_ALL = "real code: the xtl headers named by the property's anchors, compiled from /repo/include at check time"

PROPS = {
    "C20": dict(
        level="fault_enumeration",
        batches=dict(
            quick=[dict(harness="sysenv", build="san", runs=1200, wall_cap=300),
                   dict(harness="sysenv", build="plain", runs=400, offset=1200, wall_cap=300)],
            thorough=[dict(harness="sysenv", build="san", runs=6000, wall_cap=1200),
                      dict(harness="sysenv", build="plain", runs=20000, offset=6000, wall_cap=1200),
                      dict(harness="sysenv", build="plain", runs=60, offset=26000, valgrind=True, workers=8, wall_cap=1200)],
        ),
        rule=("a case is one simulated history of executable_path()/prefix_path() calls, each against a freshly generated "
              "/proc/self/exe target (length, depth, byte classes from the plan) delivered through the wrapped readlink, "
              "optionally with an injected error return; the 'sweep' configuration enumerates every total length 2..PATH_MAX-1 "
              "in one history, each also with an error return. Non-trivial: at least two calls and, when the plan attaches "
              "faults, at least one delivered. Distinct: distinct run digests (FNV-1a over every returned string)."),
        probes=["readlink_error", "len_ge_1024",
                "len_eq_PATH_MAX_minus_1", "depth_1", "depth_2"],
        components=dict(real=["include/xtl/xsystem.hpp (executable_path, prefix_path)", "include/xtl/xplatform.hpp (endianness)"],
                        stub=["readlink(2) for \"/proc/self/exe\" via -Wl,--wrap=readlink (kernel truncation semantics, no terminator, errno)",
                              "stack dirtied with seeded garbage before each call (plain build)"]),
        assumptions=["Linux semantics of readlink on /proc/self/exe: canonical absolute path, no NUL, at most PATH_MAX-1 bytes, truncated silently to the caller's buffer",
                     "only the Linux branch of executable_path() is compiled and exercised"],
    ),
}

PENDING = "claimed in DESIGN.md section 4 but its harness is not built yet in this tree; listed here until the check exists"
NOT_APPLICABLE = {
    "C04": "pure function of the operands of one call (presence flags and values); no history, fault position, schedule or environment to simulate (DESIGN.md 5)",
    "C08": "pure bit-level functions of 1-3 operands; decided by exhaustive enumeration, not by simulation (DESIGN.md 5)",
    "C09": "pure numeric functions of a half argument; exhaustive enumeration against a reference, not simulation (DESIGN.md 5)",
    "C10": "pure arithmetic on operand pairs; closure kind and ieee_compliant are compile-time configuration; nothing stateful or faultable (DESIGN.md 5)",
    "C13": "pure functions of a byte string; hostile input is still only input (DESIGN.md 5)",
    "C15": "pure functions of two integers over a compile-time matrix of type pairs (DESIGN.md 5)",
    "C16": "span is an immutable (pointer,size) pair; every operation is a function of (ptr,size,offset,count); checking mode is a compile-time switch (DESIGN.md 5)",
    "C18": "compile-time programs: the inputs are types and the outcomes static_assert results; nothing executes (DESIGN.md 5)",
    "C19": "build-configuration matrix (headers x standards x compilers x exception modes x link units); configuration enumeration, not simulation (DESIGN.md 5)",
}
for _p in ["C01", "C02", "C03", "C05", "C06", "C07", "C11", "C12", "C14", "C17"]:
    if _p not in PROPS:
        NOT_APPLICABLE[_p] = PENDING

MANIFEST_TEXT = {
    "C20": dict(
        text="fault enumeration inside seeded histories: every /proc/self/exe target length 2..PATH_MAX-1 is delivered through the wrapped readlink (sweep configuration), each also with an injected error return, plus seeded random histories biased to the buffer boundaries; results compared byte for byte with the simulated target, under ASan/UBSan and in a plain build with a dirtied stack",
        design_ref="4.11",
        note="trusts the wrapper's model of Linux readlink (silent truncation, no terminator, errno); only the Linux branch is compiled; samples path shapes, enumerates lengths",
        technique="deterministic simulation with fault injection: simulated readlink syscall (link-time wrap), enumerated lengths and error returns, seeded path shapes",
    ),
}
