// harness `hashmt` — C14 with several callers at once.
//
// hash_bytes, murmur2_x86, murmur2_x64 and std::hash<xbasic_fixed_string> are pure functions of their arguments: any
// number of caller threads may evaluate them at the same time.  Each step hands every one of three caller threads its
// own seeded keys (plus one key all of them read), releases them together and compares every value with the
// independent reference.  The binary is built with ThreadSanitizer: the callers share no happens-before edge between
// the release and the join, so ANY state the hashing code shares between calls (a static scratch buffer, a cache)
// is reported as a data race whether or not the threads happened to overlap in real time - the finding does not
// depend on the schedule the kernel chose.
#define SIMKIT_MAIN
#include "../../sim/simkit.hpp"

#include <atomic>
#include <cstring>
#include <memory>
#include <thread>
#include <vector>
#include <sys/mman.h>
#include <unistd.h>

// every header of the library, in alphabetical order, as a program using several parts of xtl would have them: what one
// header declares (helpers in xtl::detail, overloads, macros) must not change what the hash functions compute
#include "xtl/xany.hpp"
#include "xtl/xbase64.hpp"
#include "xtl/xbasic_fixed_string.hpp"
#include "xtl/xclosure.hpp"
#include "xtl/xcompare.hpp"
#include "xtl/xcomplex.hpp"
#include "xtl/xcomplex_sequence.hpp"
#include "xtl/xdynamic_bitset.hpp"
#include "xtl/xfunctional.hpp"
#include "xtl/xhalf_float.hpp"
#include "xtl/xhash.hpp"
#include "xtl/xhierarchy_generator.hpp"
#include "xtl/xiterator_base.hpp"
#include "xtl/xmasked_value.hpp"
#include "xtl/xmeta_utils.hpp"
#include "xtl/xmultimethods.hpp"
#include "xtl/xoptional.hpp"
#include "xtl/xoptional_sequence.hpp"
#include "xtl/xplatform.hpp"
#include "xtl/xproxy_wrapper.hpp"
#include "xtl/xsequence.hpp"
#include "xtl/xspan.hpp"
#include "xtl/xsystem.hpp"
#include "xtl/xtype_traits.hpp"
#include "xtl/xvariant.hpp"
#include "xtl/xvisitor.hpp"
#include "../../refs/murmur_ref.hpp"

#if defined(__SANITIZE_THREAD__)
extern "C" __attribute__((used, visibility("default"))) const char* __tsan_default_options()
{
    return "exitcode=77:halt_on_error=1:report_signal_unsafe=0";
}
#endif

namespace sim
{
    const char* const harness_name = "hashmt";
    const bool caller_threads_enabled = false;       // this harness runs its callers truly concurrently
    const char* const op_names[] = {"concurrent_hash"};
    const int op_count = 1;
    const char* const fault_names[] = {"none", "throw", "alloc", "stream", "syscall", nullptr};
    bool workload_admits(const std::string&, const std::string&) { return true; }
    int enumerate_kind() { return 0; }
}

namespace
{
    using namespace sim;
    constexpr int NCALLERS = 3;

    struct Key
    {
        std::unique_ptr<unsigned char[]> block;     // exact size + alignment offset
        std::shared_ptr<void> mapping;              // or: pages of their own, the key ending at the last byte before an unmapped page
        const unsigned char* p = nullptr;
        size_t len = 0;
        uint64_t seed = 0;
        uint64_t want64 = 0;
        uint32_t want32 = 0;
        uint64_t got64 = 0, gotb = 0;
        uint32_t got32 = 0;
        size_t want_fs = 0, got_fs = 0;
        bool fs = false;
        uint64_t want_rec = 0, got_rec = 0;
    };
    // a key that is an object of non-character type, written immediately before it is hashed (the hash functions take
    // const void*: what they read are the object's bytes as they are at the call, whatever type wrote them)
    struct Rec { uint32_t a, b, c, d, e; };
    inline void fill_rec(Rec& r, uint32_t x) { r.a = x; r.b = x * 3u + 1u; r.c = ~x; r.d = x ^ 0x5a5a5a5au; r.e = x >> 3; }
    using FS = xtl::xbasic_fixed_string<char, 64>;

    size_t pick_len(uint64_t raw)
    {
        switch (raw & 7)
        {
        case 0: return static_cast<size_t>((raw >> 3) % 9);
        case 1: case 2: return static_cast<size_t>((raw >> 3) % 70);
        case 3: return 248 + static_cast<size_t>((raw >> 3) % 20);
        case 4: return 500 + static_cast<size_t>((raw >> 3) % 40);
        case 5: return 1000 + static_cast<size_t>((raw >> 3) % 3200);
        default: return static_cast<size_t>((raw >> 3) % 300);
        }
    }
    Key make_key(Rng& r)
    {
        Key k;
        k.len = pick_len(r.next());
        size_t align = static_cast<size_t>(r.below(8));
        unsigned char* q;
        if (r.below(5) == 0)
        {
            // "read only bytes in [buffer, buffer+length)": the byte after the key does not exist.  An over-read that a sanitizer
            // was told to ignore, or that stays inside an allocator's padding, is a fault here (SIGSEGV -> crash finding).
            const size_t page = static_cast<size_t>(sysconf(_SC_PAGESIZE));
            const size_t pages = (k.len + page - 1) / page + 1;
            void* m = mmap(nullptr, (pages + 1) * page, PROT_READ | PROT_WRITE, MAP_PRIVATE | MAP_ANONYMOUS, -1, 0);
            if (m == MAP_FAILED) std::abort();
            if (mprotect(static_cast<unsigned char*>(m) + pages * page, page, PROT_NONE) != 0) std::abort();
            const size_t total = (pages + 1) * page;
            k.mapping = std::shared_ptr<void>(m, [total](void* p) { munmap(p, total); });
            q = static_cast<unsigned char*>(m) + pages * page - k.len;
            (void)align;
        }
        else
        {
            k.block.reset(new unsigned char[k.len + 16]);
            unsigned char* base = k.block.get();
            q = base + (8 - reinterpret_cast<uintptr_t>(base) % 8) % 8 + align;     // address == align (mod 8)
        }
        for (size_t i = 0; i < k.len; ++i) q[i] = static_cast<unsigned char>(r.next() >> 32);
        k.p = q;
        k.seed = (r.below(4) == 0) ? 0 : r.next();
        k.want64 = ref::murmur64a(k.p, k.len, k.seed);
        k.want32 = ref::murmur2_32(k.p, k.len, static_cast<uint32_t>(k.seed));
        k.fs = k.len <= 64 && std::memchr(k.p, 0, k.len) == nullptr;
        if (k.fs) k.want_fs = static_cast<size_t>(ref::murmur64a(k.p, k.len, 0xc70f6907UL));
        {
            Rec r; fill_rec(r, static_cast<uint32_t>(k.seed >> 7));
            unsigned char bytes[sizeof(Rec)];
            std::memcpy(bytes, &r, sizeof(Rec));
            k.want_rec = ref::murmur64a(bytes, sizeof(Rec), k.seed);
        }
        return k;
    }
    void evaluate(Key& k)
    {
        k.got32 = xtl::murmur2_x86(k.p, k.len, static_cast<uint32_t>(k.seed));
        k.got64 = xtl::murmur2_x64(k.p, k.len, k.seed);
        k.gotb = xtl::hash_bytes(k.p, k.len, static_cast<size_t>(k.seed));
        if (k.fs)
        {
            FS s(reinterpret_cast<const char*>(k.p), k.len);
            k.got_fs = std::hash<FS>()(s);
        }
        {
            Rec r;
            fill_rec(r, static_cast<uint32_t>(k.seed >> 7) ^ 0xffffffffu);       // an earlier value in the same storage ...
            uint64_t first = xtl::hash_bytes(&r, sizeof(Rec), static_cast<size_t>(k.seed));
            fill_rec(r, static_cast<uint32_t>(k.seed >> 7));                    // ... overwritten just before the call that counts
            k.got_rec = xtl::hash_bytes(&r, sizeof(Rec), static_cast<size_t>(k.seed));
            if (first == k.got_rec) k.got_rec ^= 1;                              // (different records, different hashes)
        }
    }

    // ---- the same functions called BEFORE main(): a program may hash from the constructor of a global object (a registry
    // of names, say).  A pure function has no initialisation of its own that such a call could precede, so what it returns
    // then is what it returns later.  The object below is constructed before every object of default priority, whatever
    // header they come from; it hashes a fixed set of keys and keeps the results for the runs to compare.
    constexpr int N_EARLY = 40;
    struct EarlyResult { uint64_t got64, gotb; uint32_t got32; size_t got_fs; bool fs; bool done; };
    EarlyResult g_early[N_EARLY];                     // constant-initialised (zero)
    inline size_t early_len(int i) { return i < 32 ? static_cast<size_t>(i) : static_cast<size_t>(61 + 37 * (i - 32)); }
    inline void early_key(int i, std::vector<unsigned char>& bytes, uint64_t& seed)
    {
        Rng r(mix(0xC14, static_cast<uint64_t>(i), 0x6561726c79ULL));
        bytes.resize(early_len(i));
        for (unsigned char& b : bytes) b = static_cast<unsigned char>(1 + (r.next() >> 32) % 255);      // no NUL: also a fixed-string key
        seed = (i % 3 == 0) ? 0 : r.next();
    }
    inline void early_eval(int i, EarlyResult& e)
    {
        std::vector<unsigned char> b; uint64_t seed;
        early_key(i, b, seed);
        e.got32 = xtl::murmur2_x86(b.data(), b.size(), static_cast<uint32_t>(seed));
        e.got64 = xtl::murmur2_x64(b.data(), b.size(), seed);
        e.gotb = xtl::hash_bytes(b.data(), b.size(), static_cast<size_t>(seed));
        e.fs = b.size() <= 64;
        e.got_fs = 0;
        if (e.fs) { FS s(reinterpret_cast<const char*>(b.data()), b.size()); e.got_fs = std::hash<FS>()(s); }
        e.done = true;
    }
    struct EarlyCaller { EarlyCaller() { for (int i = 0; i < N_EARLY; ++i) early_eval(i, g_early[i]); } };
    EarlyCaller g_early_caller __attribute__((init_priority(101)));

    struct World
    {
        Run& run; const Plan& plan;
        World(Run& r, const Plan& p) : run(r), plan(p) {}
        [[noreturn]] void viol(const char* oracle, const std::string& msg) { fail("model", std::string("C14/") + oracle + "/concurrent_callers", msg); }
        void check_early(uint64_t pick)
        {
            int i = static_cast<int>(pick % N_EARLY);
            const EarlyResult& e = g_early[i];
            if (!e.done) fail("model", "C14/phase/before_main", "the pre-main caller did not run");
            EarlyResult now{};
            early_eval(i, now);
            std::vector<unsigned char> b; uint64_t seed;
            early_key(i, b, seed);
            std::string what = " for a key of " + std::to_string(b.size()) + " bytes";
            if (e.got64 != now.got64 || e.gotb != now.gotb || e.got32 != now.got32 || (e.fs && e.got_fs != now.got_fs))
                fail("model", "C14/phase/before_main", "a hash evaluated before main() (from the constructor of a global object) differs from the same call made now" + what);
            if (e.got64 != ref::murmur64a(b.data(), b.size(), seed) || e.got32 != ref::murmur2_32(b.data(), b.size(), static_cast<uint32_t>(seed)))
                fail("model", "C14/phase/before_main", "a hash evaluated before main() differs from the reference" + what);
            SIM_PROBE("hash_called_before_main_compared");
        }
        void step(const Step& st)
        {
            StepScope sc(run, st, "three_callers");
            check_early(st.d ^ st.a);
            Rng r(mix(st.a, st.b, st.c));
            std::vector<Key> keys[NCALLERS];
            Key shared = make_key(r);
            size_t per = 1 + static_cast<size_t>(st.d % 6);
            for (int t = 0; t < NCALLERS; ++t)
                for (size_t i = 0; i < per; ++i) keys[t].push_back(make_key(r));
            uint64_t shared64[NCALLERS] = {};
            std::atomic<int> ready(0);
            std::vector<std::thread> th;
            for (int t = 0; t < NCALLERS; ++t)
                th.emplace_back([&, t] {
                    ready.fetch_add(1);
                    while (ready.load() < NCALLERS) std::this_thread::yield();     // released together; no edge orders the callers after this
                    for (int round = 0; round < 3; ++round)
                        for (Key& k : keys[t]) evaluate(k);
                    shared64[t] = xtl::hash_bytes(shared.p, shared.len, static_cast<size_t>(shared.seed));
                });
            for (std::thread& x : th) x.join();
            for (int t = 0; t < NCALLERS; ++t)
            {
                for (const Key& k : keys[t])
                {
                    std::string what = " for a key of " + std::to_string(k.len) + " bytes while two other callers were hashing";
                    if (k.got32 != k.want32) viol("murmur2_x86-ref", "murmur2_x86 returned a value other than the reference MurmurHash2" + what);
                    if (k.got64 != k.want64) viol("murmur2_x64-ref", "murmur2_x64 returned a value other than the reference MurmurHash64A" + what);
                    if (k.gotb != k.want64) viol("hash_bytes-ref", "hash_bytes returned a value other than the reference MurmurHash64A" + what);
                    if (k.got_rec != k.want_rec) viol("hash_bytes-ref", "hash_bytes of an object of non-character type written just before the call differs from the reference hash of its bytes");
                    if (k.fs && k.got_fs != k.want_fs) viol("fixed-string-hash", "std::hash of a fixed string differs from the reference hash of its characters" + what);
                    run.dig(k.got64); run.dig(k.got32);
                }
                if (shared64[t] != shared.want64) viol("hash_bytes-ref", "hash_bytes of a key read by all callers at once is wrong");
            }
            stats().add("c14.concurrent_hash_evaluations", static_cast<uint64_t>(NCALLERS) * per * 9);
            SIM_PROBE("three_callers_hashed_at_once");
            ++run.changing;
        }
        void run_all() { for (const Step& st : plan.steps) step(st); }
    };

    void gen(Plan& plan, Rng& cfg, Rng& pr, int)
    {
        size_t n = 2 + static_cast<size_t>(cfg.below(5));
        plan.params.push_back(n);
        for (size_t i = 0; i < n; ++i)
        {
            Step s;
            s.op = 0;
            s.a = pr.next(); s.b = pr.next(); s.c = pr.next(); s.d = pr.next() >> 44;
            plan.steps.push_back(s);
        }
    }
    void exec(const Plan& plan, Run& run) { World w(run, plan); w.run_all(); }
    RegisterCfg reg("three_concurrent_callers", gen, exec, 1, false);
}
