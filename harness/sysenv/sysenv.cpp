// harness `sysenv` — C20: executable_path()/prefix_path() against a simulated
// /proc/self/exe.  The only system call in xtl (readlink) sits behind
// -Wl,--wrap=readlink; no change to /repo is needed.
#define SIMKIT_MAIN
#include "../../sim/simkit.hpp"

#include <cerrno>
#include <unistd.h>
#include <sys/wait.h>
#include <sys/prctl.h>
#include <signal.h>
#include <time.h>
#include <limits.h>
#include <atomic>
#include <thread>

#include "xtl/xsystem.hpp"
#include "xtl/xplatform.hpp"

#if defined(__SANITIZE_THREAD__)
extern "C" __attribute__((used, visibility("default"))) const char* __tsan_default_options()
{
    return "exitcode=77:halt_on_error=1:report_signal_unsafe=0";
}
#endif

namespace sim
{
    const char* const harness_name = "sysenv";
    const bool caller_threads_enabled = false;
    enum Op { OP_EXE = 0, OP_PREFIX, OP_ENDIAN, OP_CONCURRENT, OP_COUNT };
    const char* const op_names[] = {"exe_path", "prefix_path", "endianness", "concurrent_callers"};
    const int op_count = OP_COUNT;
    const char* const fault_names[] = {"none", "throw", "alloc", "stream", "syscall", nullptr};
    bool workload_admits(const std::string&, const std::string&) { return true; }
    int enumerate_kind() { return 0; }
}

namespace
{
    using namespace sim;

    // ---- simulated environment -------------------------------------------------
    struct Env
    {
        bool active = false;
        std::string target;      // what /proc/self/exe points to
        int err = 0;             // != 0: readlink fails with this errno
        // written by the wrapper, which concurrent callers enter at the same time (OP_CONCURRENT): atomics, so that the
        // only shared plain memory between the callers is whatever the code under test shares
        std::atomic<unsigned> calls{0};
        std::atomic<size_t> last_bufsiz{0};
        std::atomic<bool> truncated{false}, filled{false};
        void reset(const std::string& t, int e) { active = false; target = t; err = e; calls = 0; last_bufsiz = 0; truncated = false; filled = false; }
    };
    Env g_env;

    const int k_errnos[] = {ENOENT, EACCES, EIO, ENAMETOOLONG};
    // errno is part of the environment too: whatever an earlier, unrelated call left there must not matter
    // (every value readlink itself may have left there on an earlier, failed call is among them)
    const int k_stale_errnos[] = {0, EINTR, EAGAIN, ENOENT, ERANGE, ENOMEM, EINVAL, EINTR, ENAMETOOLONG, EACCES, EIO, ELOOP,
                                  ENOTDIR, EFAULT, EBADF, EEXIST, EPERM, ENOSPC, EOVERFLOW, EDOM, EILSEQ, ETIMEDOUT, ENOSYS, EMFILE};
    const size_t k_stale_count = sizeof(k_stale_errnos) / sizeof(k_stale_errnos[0]);
}

extern "C" ssize_t __real_readlink(const char* path, char* buf, size_t bufsiz);
extern "C" ssize_t __wrap_readlink(const char* path, char* buf, size_t bufsiz)
{
    if (!g_env.active || std::strcmp(path, "/proc/self/exe") != 0)
        return __real_readlink(path, buf, bufsiz);
    ++g_env.calls;
    g_env.last_bufsiz = bufsiz;
    if (g_env.err) { sim::fstate().fired = true; errno = g_env.err; return -1; }   // the injected error return is delivered
    size_t n = g_env.target.size();
    if (n > bufsiz) { n = bufsiz; g_env.truncated = true; }   // the kernel truncates silently
    else if (n == bufsiz) g_env.filled = true;
    std::memcpy(buf, g_env.target.data(), n);                 // and writes no terminator
    return static_cast<ssize_t>(n);
}

namespace
{
    // A path of exactly `len` bytes (2 <= len <= PATH_MAX-1): '/'-separated
    // components of 1..255 bytes; bytes from ASCII letters, digits, space, punctuation incl. backslash,
    // control characters, UTF-8, 0x80..0xFF;
    // never NUL, never '/' inside a component.  Pure function of its arguments.
    std::string make_path(size_t len, uint64_t shape, uint64_t depth_hint, std::vector<std::string>& comps)
    {
        Rng r(mix(shape, 0x70617468, len));
        size_t depth = 1 + depth_hint % 40;
        size_t avg = len / depth; if (avg < 1) avg = 1; if (avg > 255) avg = 255;
        std::string out;
        comps.clear();
        size_t remaining = len;
        while (remaining > 0)
        {
            out.push_back('/'); --remaining;
            size_t cl = 1 + r.below(2 * avg); if (cl > 255) cl = 255;
            if (cl > remaining) cl = remaining;
            if (remaining - cl == 1) { if (cl < 255) ++cl; else --cl; }
            std::string comp;
            // styles: 0 lower case, 1 upper case and spaces, 2 UTF-8, 3 raw high bytes, 4 punctuation and control
            // characters (everything a file name may hold except NUL and '/': backslash, quotes, ':', '%', '.', newline, DEL ...),
            // 5 a mixture of all of them
            unsigned style = static_cast<unsigned>(r.below(6));
            static const char punct[] = "\\\\\"'`:;%~.$&*?!#()[]{}<>|=+,-_@^\t\n\r\x01\x1b\x7f";
            while (comp.size() < cl)
            {
                size_t room = cl - comp.size();
                unsigned pick = style == 5 ? static_cast<unsigned>(r.below(5)) : style;
                if (pick == 0) comp.push_back(static_cast<char>('a' + r.below(26)));
                else if (pick == 1) comp.push_back(r.chance(1, 4) ? ' ' : static_cast<char>('A' + r.below(26)));
                else if (pick == 2 && room >= 2) { comp.push_back(static_cast<char>(0xC3)); comp.push_back(static_cast<char>(0x80 + r.below(0x40))); }
                else if (pick == 3) comp.push_back(static_cast<char>(0x80 + r.below(0x80)));
                else if (pick == 4) comp.push_back(punct[r.below(sizeof(punct) - 1)]);
                else comp.push_back(static_cast<char>('0' + r.below(10)));
            }
            // names that look like something else: suffixes the kernel or tools attach in other situations, dots, trailing blanks
            if (r.chance(1, 6))
            {
                static const char* const tails[] = {" (deleted)", "(deleted)", " (deleted) ", ".exe", "..", "...", ".", " ", "~", ".so.1", "\\", "%s", "\n", ":", "//"[0] ? " -> x" : ""};
                const char* t = tails[r.below(sizeof(tails) / sizeof(tails[0]))];
                size_t tl = std::strlen(t);
                if (tl <= comp.size()) comp.replace(comp.size() - tl, tl, t);
                for (char& ch : comp) if (ch == '/') ch = '_';
            }
            if (comp == "." || comp == "..") comp[0] = '_';      // a canonical path has no such component
            // one component in eight begins with a directory of a conventional name: the component is split into
            // "<name>/<rest>", so the total length stays as drawn and the depth grows by one.  Such a directory may sit
            // anywhere - as the program's parent (<prefix>/bin/prog), higher up (/opt/bin/tools/prog), or twice.
            if (r.chance(1, 8))
            {
                static const char* const names[] = {"bin", "sbin", "lib", "lib64", "usr", "local", "opt", "share", "libexec", "build", "src", "home", "tmp", "etc", "Program Files", "bin32", "Bin"};
                std::string nm = names[r.below(sizeof(names) / sizeof(names[0]))];
                if (comp.size() >= nm.size() + 2)
                {
                    std::string rest = comp.substr(nm.size() + 1);
                    if (rest == "." || rest == "..") rest[0] = '_';
                    out += nm; out.push_back('/');
                    comps.push_back(nm);
                    comp = rest;
                }
            }
            out += comp;
            comps.push_back(comp);
            remaining -= cl;
        }
        // one path in five: the program's file name reappears further up - an ancestor directory begins with it or is
        // named exactly like it (python3.9/bin/python3, app/libexec/app); total length and depth stay as drawn
        if (comps.size() >= 2 && r.chance(1, 5))
        {
            size_t a = static_cast<size_t>(r.below(comps.size() - 1));
            std::string& last = comps.back();
            std::string& anc = comps[a];
            if (anc.size() >= last.size()) last = anc.substr(0, last.size());
            else anc = last.substr(0, anc.size());
            if (last == "." || last == "..") last[0] = '_';
            if (anc == "." || anc == "..") anc[0] = '_';
            out.clear();
            for (const std::string& c : comps) { out.push_back('/'); out += c; }
        }
        return out;
    }

    std::string model_prefix(const std::vector<std::string>& comps)
    {
        std::string p = "/";
        if (comps.size() > 2)
            for (size_t i = 0; i + 2 < comps.size(); ++i) { p += comps[i]; p += '/'; }
        return p;
    }

    // leave seeded garbage where the callee's frame is going to be
    __attribute__((noinline)) void dirty_stack(uint64_t seed)
    {
        volatile uint64_t junk[12288 / 8];
        uint64_t w = seed | 0x0101010101010101ULL;
        for (size_t i = 0; i < sizeof(junk) / sizeof(junk[0]); ++i)
        {
            w = (w * 6364136223846793005ULL + 1442695040888963407ULL) | 0x0101010101010101ULL;   // never a NUL byte
            junk[i] = w;
        }
        (void)junk[sizeof(junk) / sizeof(junk[0]) - 1];
    }

    // The same for frames of the size class a PATH_MAX buffer falls into.  In the sanitizer build frames live on ASan's fake
    // stack (detect_stack_use_after_return), one free list per size class: what the callee's frame holds when it is handed
    // out is what the last frame of that class left there - without this, whatever an earlier run of the worker left
    // (a violation that depends on it does not reproduce in a fresh process).
    template <size_t BYTES> __attribute__((noinline)) void dirty_frame(uint64_t seed)
    {
        volatile uint64_t junk[BYTES / 8];
        uint64_t w = seed | 0x0101010101010101ULL;
        for (size_t i = 0; i < sizeof(junk) / sizeof(junk[0]); ++i)
        {
            w = (w * 6364136223846793005ULL + 1442695040888963407ULL) | 0x0101010101010101ULL;
            junk[i] = w;
        }
        (void)junk[sizeof(junk) / sizeof(junk[0]) - 1];
    }
    inline void dirty_frames(uint64_t seed)
    {
        dirty_frame<1100>(seed); dirty_frame<2200>(seed + 1); dirty_frame<4400>(seed + 2); dirty_frame<4600>(seed + 3); dirty_frame<9000>(seed + 4);
    }
    // ASan hands out fake frames of one size class round-robin from a ring (at most 1 MiB per class), not last-freed-first:
    // once per simulated installation (= per process) every slot of the rings a PATH_MAX buffer can fall into is dirtied
    // (done in the worker before it forks the installations of a run - the children inherit the image -, with the same
    // bytes in every slot, so that it does not matter which slot of the ring the callee is handed)
    inline void dirty_frame_rings()
    {
        for (int i = 0; i < 132; ++i) dirty_frame<4400>(0x5eed);      // 1 MiB / 8 KiB = 128 slots
        for (int i = 0; i < 68; ++i) dirty_frame<9000>(0x5eed);       // 1 MiB / 16 KiB = 64 slots
    }

    const char* len_class(size_t len)
    {
        if (len < 256) return "len<256";
        if (len < 1024) return "len<1024";
        if (len < 2048) return "len<2048";
        return "len<=4095";
    }

    size_t interp_len(uint64_t a) { return 2 + static_cast<size_t>(a % (PATH_MAX - 2)); }   // 2 .. PATH_MAX-1

    // the steps [first, last) of a plan all concern ONE simulated installation (same target): they run in one process
    void run_group(const Plan& plan, Run& run, size_t first, size_t last)
    {
        (void)first;
        for (size_t si = first; si < last; ++si)
        {
            const Step& st = plan.steps[si];
            size_t len = interp_len(st.a);
            const char* lc = len_class(len);
            StepScope scope(run, st, lc);
            std::vector<std::string> comps;
            std::string target = make_path(len, st.b, st.c, comps);
            bool fault = st.fkind == FK_SYSCALL;
            g_env.reset(target, fault ? k_errnos[st.fk % 4] : 0);
            run.abstract(mix(st.op, strhash(lc), fault ? 1 + st.fk % 4 : 0));
            ++run.changing;
            std::string opn = op_name(st.op);
            if (st.op == OP_ENDIAN)
            {
                uint32_t probe = 0x01020304u; unsigned char b0;
                std::memcpy(&b0, &probe, 1);
                xtl::endian expect = (b0 == 0x04) ? xtl::endian::little_endian : (b0 == 0x01 ? xtl::endian::big_endian : xtl::endian::mixed);
                xtl::endian got = xtl::endianness();
                if (got != expect) fail("model", "C20/ret/endianness/byte-order", "endianness() disagrees with the byte order observed by memcpy");
                run.dig(static_cast<uint64_t>(got));
                continue;
            }
            if (st.op == OP_CONCURRENT)
            {
                // Three callers at once.  Both functions return their result by value and document no restriction, so a
                // program may ask for its path from several threads.  In the ThreadSanitizer build the callers really
                // overlap and share no happens-before edge between release and join: state the code under test shares
                // between calls (a static buffer) is a reported race whatever the kernel's schedule.  In the other builds
                // the same calls are made one after the other (a race there would be a schedule-dependent wrong value,
                // which cannot be replayed) and only the values are judged.
                const std::string want_prefix = model_prefix(comps);
                std::string got[3][2], err[3];
                g_env.active = true;
                auto body = [&](int t)
                {
                    errno = k_stale_errnos[(st.d + 5u * static_cast<unsigned>(t)) % k_stale_count];
                    try { for (int k = 0; k < 2; ++k) got[t][k] = ((t + k) & 1) ? xtl::prefix_path() : xtl::executable_path(); }
                    catch (const std::exception& e) { err[t] = std::string("threw ") + e.what(); }
                };
#if defined(__SANITIZE_THREAD__)
                {
                    std::atomic<int> go{0};
                    std::thread th[3];
                    for (int t = 0; t < 3; ++t) th[t] = std::thread([&, t] { while (!go.load(std::memory_order_relaxed)) std::this_thread::yield(); body(t); });
                    go.store(1, std::memory_order_relaxed);
                    for (int t = 0; t < 3; ++t) th[t].join();
                }
                SIM_PROBE("three_callers_at_once_under_tsan");
#else
                for (int t = 0; t < 3; ++t) body(t);
                SIM_PROBE("three_callers_one_after_the_other");
#endif
                g_env.active = false;
                for (int t = 0; t < 3; ++t)
                {
                    if (!err[t].empty()) fail("exception", std::string("C20/exception/concurrent_callers/") + lc, err[t]);
                    for (int k = 0; k < 2; ++k)
                    {
                        bool pre = ((t + k) & 1) != 0;
                        if (got[t][k] != (pre ? want_prefix : target))
                            fail("model", std::string("C20/ret/concurrent_callers/") + (pre ? "prefix_path/" : "exe_path/") + lc,
                                 "caller " + std::to_string(t) + " got " + std::to_string(got[t][k].size()) + " bytes that are not the simulated " + (pre ? "prefix" : "target"));
                        run.dig(got[t][k]);
                    }
                }
                continue;
            }
            dirty_stack(mix(plan.seed, run.step, 7));
            dirty_frames(mix(plan.seed, run.step, 8));
            errno = k_stale_errnos[st.d % k_stale_count];
            if (errno == EINTR) SIM_PROBE("stale_EINTR_in_errno_before_the_call");
            if (errno == ENAMETOOLONG || errno == EACCES || errno == EIO) SIM_PROBE("stale_errno_is_one_readlink_could_have_left");
            g_env.active = true;
            std::string got;
            try
            {
                got = (st.op == OP_EXE) ? xtl::executable_path() : xtl::prefix_path();
            }
            catch (const std::exception& e)
            {
                g_env.active = false;
                fail("exception", "C20/exception/" + opn + "/" + lc, std::string("threw ") + e.what());
            }
            g_env.active = false;
            // A call that did not consult the seam at all (a result cached from an earlier call of this process - harmless,
            // the path of a running program does not change) is judged by its value only: an injected error it never saw
            // obliges it to nothing.
            bool consulted = g_env.calls > 0;
            if (!consulted) SIM_PROBE("call_did_not_consult_readlink");
            if (fault && consulted)
            {
                SIM_PROBE("readlink_error");
                if (st.op == OP_EXE && !got.empty())
                    fail("model", "C20/ret/exe_path/readlink-error", "readlink failed but executable_path() returned a non-empty path");
                run.dig(got);
                continue;
            }
            if (g_env.truncated) SIM_PROBE("readlink_truncated_by_caller_buffer");
            if (g_env.filled) SIM_PROBE("readlink_filled_buffer_exactly");
            if (len >= 1024) SIM_PROBE("len_ge_1024");
            if (len == PATH_MAX - 1) SIM_PROBE("len_eq_PATH_MAX_minus_1");
            if (comps.size() == 1) SIM_PROBE("depth_1");
            if (comps.size() == 2) SIM_PROBE("depth_2");
            if (st.op == OP_EXE)
            {
                if (got != target)
                {
                    std::ostringstream m;
                    m << "executable_path() returned " << got.size() << " bytes, simulated target has " << target.size()
                      << " (caller offered a " << g_env.last_bufsiz << "-byte buffer); first difference at ";
                    size_t i = 0; while (i < got.size() && i < target.size() && got[i] == target[i]) ++i;
                    m << i;
                    fail("model", std::string("C20/ret/exe_path/") + lc, m.str());
                }
            }
            else
            {
                std::string want = model_prefix(comps);
                if (got != want)
                {
                    std::ostringstream m;
                    m << "prefix_path() returned " << got.size() << " bytes, grandparent+'/' has " << want.size()
                      << " (target " << target.size() << " bytes, depth " << comps.size() << ")";
                    fail("model", std::string("C20/ret/prefix_path/") + lc, m.str());
                }
            }
            run.dig(got);
        }
    }

    // One simulated installation = one process.  A program's own path does not change while it runs, so hidden
    // per-process state in the code under test (a static buffer, a cached result) must neither be punished when it is
    // harmless nor leak from one simulated installation into the next: every group of steps with the same target is
    // executed in a forked child, which reports its violation or its digest, counters and abstract states through a pipe.
    // A child that does not return within HANG_SECONDS is killed and reported as a hang.
    const long HANG_SECONDS = 6;
    void write_all(int fd, const std::string& s) { size_t o = 0; while (o < s.size()) { ssize_t w = ::write(fd, s.data() + o, s.size() - o); if (w <= 0) break; o += static_cast<size_t>(w); } }
    void exec_plan(const Plan& plan, Run& run)
    {
#if defined(__SANITIZE_ADDRESS__)
        dirty_frame_rings();
#endif
        size_t first = 0;
        while (first < plan.steps.size())
        {
            size_t last = first + 1;
            while (last < plan.steps.size() && plan.steps[last].a == plan.steps[first].a && plan.steps[last].b == plan.steps[first].b && plan.steps[last].c == plan.steps[first].c) ++last;
            int fd[2];
            if (pipe(fd) != 0) std::abort();
            std::fflush(stdout); std::fflush(stderr);
            pid_t pid = fork();
            if (pid < 0) std::abort();
            if (pid == 0)
            {
                prctl(PR_SET_PDEATHSIG, SIGKILL);      // never outlive the worker (a spinning orphan would also keep its stdout pipe open)
                if (getppid() == 1) _exit(0);
                close(fd[0]);
                Stats& st = stats();
                for (auto& v : st.values) v = 0;
                st.abstract.clear();
                std::ostringstream out;
                try
                {
                    run_group(plan, run, first, last);
                    out << "OK\n";
                }
                catch (const Violation& v) { std::string m = v.msg; for (char& ch : m) if (ch == '\n' || ch == '\t') ch = ' '; out << "V\t" << v.cls << "\t" << v.sig << "\t" << m << "\n"; }
                out << "R " << run.digest << ' ' << run.step << ' ' << run.changing << ' ' << run.fired << ' ' << run.configured << "\n";
                for (size_t i = 0; i < st.names.size(); ++i) if (st.values[i]) out << "S " << st.names[i] << ' ' << st.values[i] << "\n";
                for (uint64_t a : st.abstract) out << "A " << a << "\n";
                write_all(fd[1], out.str());
                std::fflush(stdout); std::fflush(stderr);
                _exit(0);
            }
            close(fd[1]);
            std::string in; char buf[4096];
            // wait with a deadline
            struct timespec t0; clock_gettime(CLOCK_MONOTONIC, &t0);
            int status = 0; bool done = false, hung = false;
            for (;;)
            {
                // drain what is there (the pipe could fill up)
                // (non-blocking read is not needed: the child writes once, at its end)
                pid_t r = waitpid(pid, &status, WNOHANG);
                if (r == pid) { done = true; break; }
                struct timespec t1; clock_gettime(CLOCK_MONOTONIC, &t1);
                if (t1.tv_sec - t0.tv_sec > HANG_SECONDS) { kill(pid, SIGKILL); waitpid(pid, &status, 0); hung = true; break; }
                struct timespec nap = {0, 200000}; nanosleep(&nap, nullptr);
            }
            if (done) { ssize_t n; while ((n = ::read(fd[0], buf, sizeof(buf))) > 0) in.append(buf, static_cast<size_t>(n)); }
            close(fd[0]);
            if (hung)
            {
                run.step += 1;
                fail("hang", std::string("C20/hang/") + op_name(plan.steps[first].op) + "/" + len_class(interp_len(plan.steps[first].a)), "executable_path()/prefix_path() did not return within " + std::to_string(HANG_SECONDS) + " s");
            }
            if (!WIFEXITED(status) || WEXITSTATUS(status) != 0)
            {
                // the child crashed (sanitizer report, signal): die the same way, the driver triages the announced run
                std::fflush(stdout);
                if (WIFSIGNALED(status)) { signal(WTERMSIG(status), SIG_DFL); raise(WTERMSIG(status)); }
                _exit(WIFEXITED(status) ? WEXITSTATUS(status) : 70);
            }
            std::istringstream is(in);
            std::string line; bool violated = false; Violation viol;
            while (std::getline(is, line))
            {
                if (line.compare(0, 2, "V\t") == 0)
                {
                    size_t a = line.find('\t', 2), b = a == std::string::npos ? a : line.find('\t', a + 1);
                    if (b != std::string::npos) { violated = true; viol = Violation{line.substr(2, a - 2), line.substr(a + 1, b - a - 1), line.substr(b + 1)}; }
                }
                else if (line.compare(0, 2, "R ") == 0)
                {
                    std::istringstream ls(line.substr(2));
                    ls >> run.digest >> run.step >> run.changing >> run.fired >> run.configured;
                }
                else if (line.compare(0, 2, "S ") == 0)
                {
                    size_t sp = line.rfind(' ');
                    stats().add(line.substr(2, sp - 2), std::strtoull(line.c_str() + sp + 1, nullptr, 10));
                }
                else if (line.compare(0, 2, "A ") == 0) stats().abstract.insert(std::strtoull(line.c_str() + 2, nullptr, 10));
            }
            if (violated) throw viol;
            first = last;
        }
    }

    uint64_t biased_len(Rng& r)
    {
        unsigned c = static_cast<unsigned>(r.below(10));
        uint64_t len;
        if (c < 3) len = r.range(1000, 1100);
        else if (c < 5) len = r.range(4000, PATH_MAX - 1);
        else if (c < 6) len = r.range(2, 20);
        else len = r.range(2, PATH_MAX - 1);
        return len - 2;      // inverse of interp_len
    }

    void gen_random(Plan& plan, Rng& cfg, Rng& pr, int)
    {
        size_t n = 1 + cfg.below(12);
        unsigned fault_pct = static_cast<unsigned>(cfg.below(3)) * 15;   // 0, 15 or 30 %
        // one run = one installed program: every step concerns the same target
        uint64_t ta = biased_len(pr), tb = pr.next() >> 16, tc = pr.next() >> 40;
        for (size_t i = 0; i < n; ++i)
        {
            Step s;
            unsigned o = static_cast<unsigned>(pr.below(10));
            s.op = o < 4 ? OP_EXE : (o < 8 ? OP_PREFIX : (o < 9 ? OP_CONCURRENT : OP_ENDIAN));
            if (s.op == OP_ENDIAN && pr.below(3) != 0) s.op = OP_CONCURRENT;
            s.a = ta; s.b = tb; s.c = tc;
            s.d = pr.next() >> 44;
            if (s.op != OP_ENDIAN && s.op != OP_CONCURRENT && pr.below(100) < fault_pct) { s.fkind = FK_SYSCALL; s.fk = pr.below(4); }
            plan.steps.push_back(s);
        }
    }

    // every total length 2..PATH_MAX-1 once, each also with an error return
    void gen_sweep(Plan& plan, Rng& cfg, Rng& pr, int)
    {
        uint64_t phase = cfg.below(8);
        for (uint64_t len = 2; len <= PATH_MAX - 1; ++len)
        {
            Step s;
            s.op = OP_EXE; s.a = len - 2; s.b = pr.next() >> 16; s.c = pr.next() >> 40; s.d = pr.next() >> 44;
            plan.steps.push_back(s);
            if (len % 8 == phase) { Step p = s; p.op = OP_PREFIX; plan.steps.push_back(p); }
            Step f = s; f.fkind = FK_SYSCALL; f.fk = len % 4; if (len % 2) f.op = OP_PREFIX;
            plan.steps.push_back(f);
        }
    }

    RegisterCfg r1("random", gen_random, exec_plan, 400);
    RegisterCfg r2("sweep", gen_sweep, exec_plan, 1);
}
