// harness `iter` — C12: iterators built on xbidirectional_iterator_base / xrandom_access_iterator_base obey the
// iterator laws.  Two walker actors hold an iterator and a model index each; every step moves or combines them
// and the result is checked against index arithmetic.  (Weakest claim: no fault dimension exists here.)
#define SIMKIT_MAIN
#include "../../sim/simkit.hpp"

#include <map>
#include <vector>

#include <list>
#include <sys/mman.h>
#include <cstdlib>

#include "xtl/xiterator_base.hpp"
#include "xtl/xdynamic_bitset.hpp"
#include "xtl/xoptional_sequence.hpp"
#include "xtl/xcomplex_sequence.hpp"

#define ITER_OPS(X) \
    X(pre_inc) X(pre_dec) X(post_inc) X(post_dec) X(plus_assign) X(minus_assign) X(plus) X(n_plus) X(minus) X(index) X(diff) X(compare) \
    X(deref) X(traverse) X(ext_plus) X(ext_n_plus) X(ext_minus) X(ext_index) X(write) X(reseat)

namespace itops
{
#define X(n) OP_##n,
    enum Op { ITER_OPS(X) OP_COUNT };
#undef X
}

namespace sim
{
    const char* const harness_name = "iter";
    const bool caller_threads_enabled = true;
#define X(n) #n,
    const char* const op_names[] = {ITER_OPS(X)};
#undef X
    const int op_count = itops::OP_COUNT;
    const char* const fault_names[] = {"none", "throw", "alloc", "stream", "syscall", nullptr};
    bool workload_admits(const std::string&, const std::string&) { return true; }
    int enumerate_kind() { return 0; }
}

namespace
{
    using namespace sim;
    using namespace itops;

    // ---- iterator kinds ------------------------------------------------------------------------------
    // Each kind owns a container of n elements whose values identify their position where the element type allows,
    // and exposes: at(pos) -> iterator at model position pos (0..n), value(it) -> long, model(pos) -> long.

    template <class B, bool CONST>
    struct BitsetKind
    {
        static constexpr bool ra = true, lt = true, mut = !CONST, ext = false;
        using C = xtl::xdynamic_bitset<B>;
        using It = std::conditional_t<CONST, typename C::const_iterator, typename C::iterator>;
        C c; std::vector<bool> m; size_t n = 0;
        void build(size_t size, Rng& r) { n = size; c.resize(0); c.resize(n); m.assign(n, false); for (size_t i = 0; i < n; ++i) { bool b = r.chance(1, 2); m[i] = b; c.set(i, b); } }
        It at(size_t p) { return It(c, p); }
        It begin() { return at(0); } It end() { return at(n); }
        long value(const It& it) { return static_cast<bool>(*it) ? 1 : 0; }
        long index(const It& it, std::ptrdiff_t d) { return static_cast<bool>(it[d]) ? 1 : 0; }
        long model(size_t p) { return m[p] ? 1 : 0; }
        void write(It& it, size_t p, long v) { write_impl(it, p, v, std::integral_constant<bool, !CONST>()); }
        void write_impl(It& it, size_t p, long v, std::true_type) { *it = (v & 1) != 0; m[p] = (v & 1) != 0; }
        void write_impl(It&, size_t, long, std::false_type) {}
    };

    // MODE 0 iterator, 1 const_iterator (cbegin/cend), 2 reverse_iterator, 3 const_reverse_iterator through the const
    // overloads rbegin()/rend() of a const container, 4 const_iterator through the const overloads begin()/end()
    template <class C, int MODE>
    using mode_iterator_t = std::conditional_t<MODE == 0, typename C::iterator,
                            std::conditional_t<MODE == 1 || MODE == 4, typename C::const_iterator,
                            std::conditional_t<MODE == 2, typename C::reverse_iterator, typename C::const_reverse_iterator>>>;

    template <class C0, int MODE>
    struct OptKind
    {
        static constexpr bool ra = true, lt = true, mut = MODE == 0 || MODE == 2, ext = false;
        using C = C0;
        using It = mode_iterator_t<C, MODE>;
        C c; std::vector<long> m; size_t n = 0;
        void build(size_t size, Rng&) { resize(c, size); n = c.size(); m.resize(n); for (size_t i = 0; i < n; ++i) { m[i] = static_cast<long>(i * 3 + 1); c[i] = static_cast<int>(m[i]); } }
        template <class T, class A, class BC> static void resize(xtl::xoptional_vector<T, A, BC>& v, size_t s) { v.resize(s); }
        template <class T, size_t I, class BC> static void resize(xtl::xoptional_array<T, I, BC>&, size_t) {}
        // reverse kinds: model position p designates element n-1-p
        size_t elem(size_t p) const { return (MODE == 2 || MODE == 3) ? n - 1 - p : p; }
        It at(size_t p) { return at_impl(p, std::integral_constant<int, MODE>()); }
        It at_impl(size_t p, std::integral_constant<int, 0>) { return c.begin() + static_cast<std::ptrdiff_t>(p); }
        It at_impl(size_t p, std::integral_constant<int, 1>) { return c.cbegin() + static_cast<std::ptrdiff_t>(p); }
        It at_impl(size_t p, std::integral_constant<int, 2>) { It it = c.rbegin(); for (size_t i = 0; i < p; ++i) ++it; return it; }
        It at_impl(size_t p, std::integral_constant<int, 3>) { const C& cc = c; It it = cc.rbegin(); for (size_t i = 0; i < p; ++i) ++it; return it; }
        It at_impl(size_t p, std::integral_constant<int, 4>) { const C& cc = c; return cc.begin() + static_cast<std::ptrdiff_t>(p); }
        It begin() { return at(0); } It end() { return end_impl(std::integral_constant<int, MODE>()); }
        It end_impl(std::integral_constant<int, 0>) { return c.end(); }
        It end_impl(std::integral_constant<int, 1>) { return c.cend(); }
        It end_impl(std::integral_constant<int, 2>) { return c.rend(); }
        It end_impl(std::integral_constant<int, 3>) { const C& cc = c; return cc.rend(); }
        It end_impl(std::integral_constant<int, 4>) { const C& cc = c; return cc.end(); }
        long value(const It& it) { return static_cast<long>((*it).value()); }
        long index(const It& it, std::ptrdiff_t d) { return static_cast<long>(it[d].value()); }
        long model(size_t p) { return m[elem(p)]; }
        void write(It& it, size_t p, long v) { write_impl(it, p, v, std::integral_constant<bool, mut>()); }
        void write_impl(It& it, size_t p, long v, std::true_type) { *it = static_cast<int>(v); m[elem(p)] = static_cast<int>(v); }
        void write_impl(It&, size_t, long, std::false_type) {}
    };

    template <class C0, int MODE>
    struct CplxKind
    {
        static constexpr bool ra = true, lt = true, mut = MODE == 0 || MODE == 2, ext = false;
        using C = C0;
        using It = mode_iterator_t<C, MODE>;
        C c; std::vector<long> m; size_t n = 0;
        void build(size_t size, Rng&) { resize(c, size); n = c.size(); m.resize(n); for (size_t i = 0; i < n; ++i) { m[i] = static_cast<long>(i * 5 + 2); c.real()[i] = static_cast<double>(m[i]); c.imag()[i] = -static_cast<double>(m[i]); } }
        template <class T, bool B, class A> static void resize(xtl::xcomplex_vector<T, B, A>& v, size_t s) { v.resize(s); }
        template <class T, size_t N, bool B> static void resize(xtl::xcomplex_array<T, N, B>&, size_t) {}
        size_t elem(size_t p) const { return (MODE == 2 || MODE == 3) ? n - 1 - p : p; }
        It at(size_t p) { return at_impl(p, std::integral_constant<int, MODE>()); }
        It at_impl(size_t p, std::integral_constant<int, 0>) { return c.begin() + static_cast<std::ptrdiff_t>(p); }
        It at_impl(size_t p, std::integral_constant<int, 1>) { return c.cbegin() + static_cast<std::ptrdiff_t>(p); }
        It at_impl(size_t p, std::integral_constant<int, 2>) { It it = c.rbegin(); for (size_t i = 0; i < p; ++i) ++it; return it; }
        It at_impl(size_t p, std::integral_constant<int, 3>) { const C& cc = c; It it = cc.rbegin(); for (size_t i = 0; i < p; ++i) ++it; return it; }
        It at_impl(size_t p, std::integral_constant<int, 4>) { const C& cc = c; return cc.begin() + static_cast<std::ptrdiff_t>(p); }
        It begin() { return at(0); } It end() { return end_impl(std::integral_constant<int, MODE>()); }
        It end_impl(std::integral_constant<int, 0>) { return c.end(); }
        It end_impl(std::integral_constant<int, 1>) { return c.cend(); }
        It end_impl(std::integral_constant<int, 2>) { return c.rend(); }
        It end_impl(std::integral_constant<int, 3>) { const C& cc = c; return cc.rend(); }
        It end_impl(std::integral_constant<int, 4>) { const C& cc = c; return cc.end(); }
        long value(const It& it) { auto r = *it; if (r.imag() != -r.real()) return -999999; return static_cast<long>(r.real()); }
        long index(const It& it, std::ptrdiff_t d) { auto r = it[d]; if (r.imag() != -r.real()) return -999999; return static_cast<long>(r.real()); }
        long model(size_t p) { return m[elem(p)]; }
        void write(It& it, size_t p, long v) { write_impl(it, p, v, std::integral_constant<bool, mut>()); }
        void write_impl(It& it, size_t p, long v, std::true_type) { (*it).real() = static_cast<double>(v); (*it).imag() = -static_cast<double>(v); m[elem(p)] = v; }
        void write_impl(It&, size_t, long, std::false_type) {}
    };

    template <int STEP>
    struct SteppingKind
    {
        static constexpr bool ra = true, lt = true, mut = true, ext = false;
        using It = xtl::xstepping_iterator<std::vector<int>::iterator>;
        std::vector<int> v; size_t n = 0;
        void build(size_t size, Rng&) { n = size; v.resize(n * STEP); for (size_t i = 0; i < v.size(); ++i) v[i] = static_cast<int>(i * 7 + 3); }
        It at(size_t p) { return xtl::make_stepping_iterator(v.begin() + static_cast<std::ptrdiff_t>(p * STEP), STEP); }
        // an iterator of the same type that walks another sequence with another step: a variable that held it and is then
        // assigned one of this kind's iterators must behave like the assigned one in every respect
        std::vector<int> other = std::vector<int>(64, -1);
        It foreign() { return xtl::make_stepping_iterator(other.begin() + 5, STEP + 3); }
        It begin() { return at(0); } It end() { return at(n); }
        long value(const It& it) { return *it; }
        long index(const It& it, std::ptrdiff_t d) { return it[d]; }
        long model(size_t p) { return v[p * STEP]; }
        void write(It& it, size_t p, long val) { *it = static_cast<int>(val); (void)p; }
    };

    template <bool VALUES>
    struct MapKind
    {
        static constexpr bool ra = false, lt = false, mut = false, ext = false;
        using M = std::map<int, int>;
        using It = std::conditional_t<VALUES, xtl::xvalue_iterator<M>, xtl::xkey_iterator<M>>;
        M mp; std::vector<long> m; size_t n = 0;
        void build(size_t size, Rng&) { n = size; mp.clear(); m.clear(); for (size_t i = 0; i < n; ++i) { mp[static_cast<int>(i * 2)] = static_cast<int>(i * 11 + 4); m.push_back(VALUES ? static_cast<long>(i * 11 + 4) : static_cast<long>(i * 2)); } }
        It at(size_t p) { auto it = mp.begin(); std::advance(it, static_cast<std::ptrdiff_t>(p)); return It(it); }
        It begin() { return at(0); } It end() { return at(n); }
        long value(const It& it) { return *it; }
        long index(const It&, std::ptrdiff_t) { return 0; }
        long model(size_t p) { return m[p]; }
        void write(It&, size_t, long) {}
    };

    // the test suite's minimal iterator: everything but ++, --, +=, -=, -, *, ==, < comes from the bases
    struct Mini : xtl::xrandom_access_iterator_base<Mini, int, std::ptrdiff_t, int*, int&>, xtl::xrandom_access_iterator_ext<Mini, int&>
    {
        using base = xtl::xrandom_access_iterator_base<Mini, int, std::ptrdiff_t, int*, int&>;
        using ext_type = xtl::xrandom_access_iterator_ext<Mini, int&>;
        using base::operator[];
        using ext_type::operator[];
        // a range-checked iterator: its primitives refuse offsets that leave [lo, hi], so a derived operator that calls
        // them with a wrapped-around or otherwise wrong value is noticed even when modular arithmetic would hide it
        int* p = nullptr; int* lo = nullptr; int* hi = nullptr;
        Mini() = default;
        Mini(int* q, int* l, int* h) : p(q), lo(l), hi(h) {}
        [[noreturn]] static void out_of_range(const char* what) { sim::fail("model", "C12/primitive-argument/minimal_with_ext/primitive", std::string("a derived operator called the primitive ") + what + " with an offset that leaves the container's range"); }
        Mini& operator++() { if (p == hi) out_of_range("operator++"); ++p; return *this; }
        Mini& operator--() { if (p == lo) out_of_range("operator--"); --p; return *this; }
        Mini& operator+=(std::ptrdiff_t n) { if (n > hi - p || n < lo - p) out_of_range("operator+=(difference_type)"); p += n; return *this; }
        Mini& operator-=(std::ptrdiff_t n) { if (n > p - lo || n < p - hi) out_of_range("operator-=(difference_type)"); p -= n; return *this; }
        Mini& operator+=(std::size_t n) { if (n > static_cast<std::size_t>(hi - p)) out_of_range("operator+=(size_type)"); p += n; return *this; }
        Mini& operator-=(std::size_t n) { if (n > static_cast<std::size_t>(p - lo)) out_of_range("operator-=(size_type)"); p -= n; return *this; }
        std::ptrdiff_t operator-(const Mini& o) const { return p - o.p; }
        int& operator*() const { return *p; }
        int* operator->() const { return p; }
        bool operator==(const Mini& o) const { return p == o.p; }
        bool operator<(const Mini& o) const { return p < o.p; }
    };
    struct MiniKind
    {
        static constexpr bool ra = true, lt = true, mut = true, ext = true;
        using It = Mini;
        std::vector<int> v; size_t n = 0;
        void build(size_t size, Rng&) { n = size; v.resize(n + 1); for (size_t i = 0; i < v.size(); ++i) v[i] = static_cast<int>(i * 13 + 5); }
        It at(size_t p) { return Mini(v.data() + p, v.data(), v.data() + n); }
        It begin() { return at(0); } It end() { return at(n); }
        long value(const It& it) { return *it; }
        long index(const It& it, std::ptrdiff_t d) { return it[d]; }
        long model(size_t p) { return v[p]; }
        void write(It& it, size_t, long val) { *it = static_cast<int>(val); }
    };

    // differences are only defined forwards (a - b with a not before b): stepping over a bidirectional underlying iterator
    template <class K> struct forward_diff_only : std::false_type {};

    // xstepping_iterator laid over one of xtl's own random access iterators
    template <int STEP>
    struct SteppingOverBitsetKind
    {
        static constexpr bool ra = true, lt = true, mut = false, ext = false;
        using C = xtl::xdynamic_bitset<uint32_t>;
        using It = xtl::xstepping_iterator<C::const_iterator>;
        C c; std::vector<bool> m; size_t n = 0;
        void build(size_t size, Rng& r) { n = size; c.resize(0); c.resize(n * STEP); m.assign(n * STEP, false); for (size_t i = 0; i < n * STEP; ++i) { bool b = r.chance(1, 2); m[i] = b; c.set(i, b); } }
        It at(size_t p) { return xtl::make_stepping_iterator(C::const_iterator(c, p * STEP), STEP); }
        It begin() { return at(0); } It end() { return at(n); }
        long value(const It& it) { return static_cast<bool>(*it) ? 1 : 0; }
        long index(const It& it, std::ptrdiff_t d) { return static_cast<bool>(it[d]) ? 1 : 0; }
        long model(size_t p) { return m[p * STEP] ? 1 : 0; }
        void write(It&, size_t, long) {}
    };
    // ... and over a merely bidirectional iterator (std::list): no operator<, differences only forwards
    template <int STEP>
    struct SteppingOverListKind
    {
        static constexpr bool ra = true, lt = false, mut = true, ext = false;
        using It = xtl::xstepping_iterator<std::list<int>::iterator>;
        std::list<int> l; std::vector<int> m; size_t n = 0;
        void build(size_t size, Rng&) { n = size; l.clear(); m.clear(); for (size_t i = 0; i < n * STEP; ++i) { l.push_back(static_cast<int>(i * 11 + 1)); m.push_back(static_cast<int>(i * 11 + 1)); } }
        It at(size_t p) { auto it = l.begin(); std::advance(it, static_cast<std::ptrdiff_t>(p * STEP)); return xtl::make_stepping_iterator(it, STEP); }
        It begin() { return at(0); } It end() { return at(n); }
        long value(const It& it) { return *it; }
        long index(const It& it, std::ptrdiff_t d) { return it[d]; }
        long model(size_t p) { return m[p * STEP]; }
        void write(It& it, size_t p, long val) { *it = static_cast<int>(val); m[p * STEP] = static_cast<int>(val); }
    };
    template <int STEP> struct forward_diff_only<SteppingOverListKind<STEP>> : std::true_type {};

    // Kinds whose positions or steps do not fit 32 bits.  Their memory is never written (calloc / PROT_READ zero pages),
    // they skip full traversals, and walker positions are drawn from both ends and the 2^31 boundary.
    template <class K> struct is_huge : std::false_type {};

    struct HugeBitsetKind
    {
        static constexpr bool ra = true, lt = true, mut = false, ext = false;
        using C = xtl::xdynamic_bitset_view<uint64_t>;
        using It = C::const_iterator;
        static constexpr size_t N = (size_t(1) << 31) + 192;
        uint64_t* mem = nullptr;
        std::unique_ptr<C> c;
        size_t n = 0;
        ~HugeBitsetKind() { c.reset(); std::free(mem); }
        void build(size_t, Rng&)
        {
            if (!mem) { mem = static_cast<uint64_t*>(std::calloc(N / 64 + 1, 8)); if (!mem) std::abort(); }
            n = N;
            c.reset(new C(mem, n));
        }
        It at(size_t p) { return It(*c, p); }
        It begin() { return at(0); } It end() { return at(n); }
        long value(const It& it) { return static_cast<bool>(*it) ? 1 : 0; }
        long index(const It& it, std::ptrdiff_t d) { return static_cast<bool>(it[d]) ? 1 : 0; }
        long model(size_t) { return 0; }
        void write(It&, size_t, long) {}
        size_t pick_pos(uint64_t raw) const
        {
            size_t off = static_cast<size_t>((raw >> 3) % 64);
            switch (raw & 7)
            {
            case 0: return off;
            case 1: return n - off;
            case 2: return (size_t(1) << 31) - off;
            case 3: return (size_t(1) << 31) + off;
            case 4: return 0;
            case 5: return n;
            default: return static_cast<size_t>((raw * 0x9e3779b97f4a7c15ULL) % (n + 1));
            }
        }
    };
    template <> struct is_huge<HugeBitsetKind> : std::true_type {};

    struct HugeSteppingKind
    {
        static constexpr bool ra = true, lt = true, mut = false, ext = false;
        using It = xtl::xstepping_iterator<const char*>;
        static constexpr std::ptrdiff_t STEP = (std::ptrdiff_t(1) << 31) + 7;
        const char* mem = nullptr;
        size_t n = 0, bytes = 0;
        ~HugeSteppingKind() { if (mem) munmap(const_cast<char*>(mem), bytes); }
        void build(size_t, Rng&)
        {
            n = 2;
            if (!mem)
            {
                bytes = static_cast<size_t>(STEP) * n + 4096;
                void* q = mmap(nullptr, bytes, PROT_READ, MAP_PRIVATE | MAP_ANONYMOUS | MAP_NORESERVE, -1, 0);
                if (q == MAP_FAILED) std::abort();
                mem = static_cast<const char*>(q);
            }
        }
        It at(size_t p) { return xtl::make_stepping_iterator(mem + static_cast<std::ptrdiff_t>(p) * STEP, STEP); }
        It begin() { return at(0); } It end() { return at(n); }
        long value(const It& it) { return *it; }
        long index(const It& it, std::ptrdiff_t d) { return it[d]; }
        long model(size_t) { return 0; }
        void write(It&, size_t, long) {}
        size_t pick_pos(uint64_t raw) const { return static_cast<size_t>(raw % (n + 1)); }
    };
    template <> struct is_huge<HugeSteppingKind> : std::true_type {};

    // a small step but offsets (numbers of steps) beyond 2^31
    struct HugeOffsetSteppingKind
    {
        static constexpr bool ra = true, lt = true, mut = false, ext = false;
        using It = xtl::xstepping_iterator<const char*>;
        static constexpr std::ptrdiff_t STEP = 2;
        const char* mem = nullptr;
        size_t n = 0, bytes = 0;
        ~HugeOffsetSteppingKind() { if (mem) munmap(const_cast<char*>(mem), bytes); }
        void build(size_t, Rng&)
        {
            n = (size_t(1) << 31) + 64;
            if (!mem)
            {
                bytes = static_cast<size_t>(STEP) * n + 4096;
                void* q = mmap(nullptr, bytes, PROT_READ, MAP_PRIVATE | MAP_ANONYMOUS | MAP_NORESERVE, -1, 0);
                if (q == MAP_FAILED) std::abort();
                mem = static_cast<const char*>(q);
            }
        }
        It at(size_t p) { return xtl::make_stepping_iterator(mem + static_cast<std::ptrdiff_t>(p) * STEP, STEP); }
        It begin() { return at(0); } It end() { return at(n); }
        long value(const It& it) { return *it; }
        long index(const It& it, std::ptrdiff_t d) { return it[d]; }
        long model(size_t) { return 0; }
        void write(It&, size_t, long) {}
        size_t pick_pos(uint64_t raw) const
        {
            size_t off = static_cast<size_t>((raw >> 3) % 64);
            switch (raw & 3) { case 0: return off; case 1: return n - off; case 2: return (size_t(1) << 31) - off; default: return (size_t(1) << 31) + off; }
        }
    };
    template <> struct is_huge<HugeOffsetSteppingKind> : std::true_type {};

    // the iterator of the optional containers over two plain pointer ranges (what xoptional_array<T, N, std::array<bool, N>>
    // uses), of more than 2^31 elements each: the value and the flag iterator have to move in lock-step for every offset
    struct HugeOptionalKind
    {
        static constexpr bool ra = true, lt = true, mut = false, ext = false;
        using It = xtl::xoptional_iterator<const char*, const bool*>;
        const char* mem = nullptr;
        size_t n = 0, bytes = 0;
        ~HugeOptionalKind() { if (mem) munmap(const_cast<char*>(mem), 2 * bytes); }
        void build(size_t, Rng&)
        {
            n = (size_t(1) << 31) + 192;
            if (!mem)
            {
                bytes = n + 4096 - n % 4096;
                void* q = mmap(nullptr, 2 * bytes, PROT_READ, MAP_PRIVATE | MAP_ANONYMOUS | MAP_NORESERVE, -1, 0);
                if (q == MAP_FAILED) std::abort();
                mem = static_cast<const char*>(q);
            }
        }
        It at(size_t p) { return It(mem + p, reinterpret_cast<const bool*>(mem + bytes) + p); }
        It begin() { return at(0); } It end() { return at(n); }
        long value(const It& it) { auto r = *it; return static_cast<long>(r.value()) * 2 + (r.has_value() ? 1 : 0); }
        long index(const It& it, std::ptrdiff_t d) { auto r = it[d]; return static_cast<long>(r.value()) * 2 + (r.has_value() ? 1 : 0); }
        long model(size_t) { return 0; }
        void write(It&, size_t, long) {}
        size_t pick_pos(uint64_t raw) const
        {
            size_t off = static_cast<size_t>((raw >> 3) % 64);
            switch (raw & 3) { case 0: return off; case 1: return n - off; case 2: return (size_t(1) << 31) - off; default: return (size_t(1) << 31) + off; }
        }
    };
    template <> struct is_huge<HugeOptionalKind> : std::true_type {};

    // ---- the walk ------------------------------------------------------------------------------------
    template <class K>
    struct World
    {
        using It = typename K::It;
        Run& run;
        const Plan& plan;
        Rng env;
        K k;
        It it[2];
        size_t pos[2] = {0, 0};
        std::string tail, kindname;

        World(Run& r, const Plan& p) : run(r), plan(p), env(stream(p.seed, TAG_ENV)), it{begin_of(k, p, env), k.begin()}
        {
            kindname = p.cfg;
            tail = "initial/-";
        }
        static It begin_of(K& k, const Plan& p, Rng& env) { k.build(p.params.size() > 1 ? static_cast<size_t>(p.params[1]) : 5, env); return k.begin(); }

        [[noreturn]] void viol(const char* oracle, const std::string& msg) { fail("model", std::string("C12/") + oracle + "/" + kindname + "/" + tail, msg); }

        // an iterator that should stand at model position p
        void expect_at(const It& x, size_t p, const char* what)
        {
            if (!(x == k.at(p))) viol("position", std::string(what) + ": iterator is not at position " + std::to_string(p) + " of " + std::to_string(k.n));
            if (x != k.at(p)) viol("ne", std::string(what) + ": != is not the negation of ==");
            if (p < k.n && k.value(x) != k.model(p)) viol("deref", std::string(what) + ": dereferences to " + std::to_string(k.value(x)) + ", element " + std::to_string(p) + " is " + std::to_string(k.model(p)));
            expect_distance(x, p, what, std::integral_constant<bool, K::ra>());
        }
        static constexpr bool fwd_only = forward_diff_only<K>::value;
        void expect_distance(const It& x, size_t p, const char* what, std::true_type)
        {
            if ((x - k.begin()) != static_cast<std::ptrdiff_t>(p)) viol("diff", std::string(what) + ": it - begin() == " + std::to_string(static_cast<long>(x - k.begin())) + ", expected " + std::to_string(p));
        }
        void expect_distance(const It&, size_t, const char*, std::false_type) {}

        template <class KK> static auto foreign_of(KK& kk, int) -> decltype(kk.foreign()) { SIM_PROBE("assigned_over_an_iterator_with_another_step"); return kk.foreign(); }
        template <class KK> static It foreign_of(KK& kk, long) { return kk.at(0); }

        void check_walkers()
        {
            expect_at(it[0], pos[0], "walker 0");
            expect_at(it[1], pos[1], "walker 1");
            run.dig(pos[0]); run.dig(pos[1]);
        }
        // offset keeping pos + off inside [0, n]
        size_t pick_pos(uint64_t raw, std::true_type) const { return k.pick_pos(raw); }
        size_t pick_pos(uint64_t raw, std::false_type) const { return static_cast<size_t>(raw % (k.n + 1)); }
        std::ptrdiff_t offset(uint64_t raw, size_t p) const
        {
            if (is_huge<K>::value) return static_cast<std::ptrdiff_t>(pick_pos(raw, is_huge<K>())) - static_cast<std::ptrdiff_t>(p);
            unsigned sel = raw & 7; raw >>= 3;
            std::ptrdiff_t lo = -static_cast<std::ptrdiff_t>(p), hi = static_cast<std::ptrdiff_t>(k.n - p);
            if (sel == 0) return 0;
            if (sel == 1) return hi;
            if (sel == 2) return lo;
            if (sel == 3) return hi > 0 ? 1 : 0;
            if (sel == 4) return lo < 0 ? -1 : 0;
            return lo + static_cast<std::ptrdiff_t>(raw % static_cast<uint64_t>(hi - lo + 1));
        }

        void random_access_op(const Step& st, int w, std::false_type) { (void)st; (void)w; stats().add("skipped.not_random_access"); }
        void random_access_op(const Step& st, int w, std::true_type)
        {
            size_t p = pos[w];
            std::ptrdiff_t d = offset(st.a, p);
            size_t q = static_cast<size_t>(static_cast<std::ptrdiff_t>(p) + d);
            It& a = it[w];
            It& b = it[1 - w];
            switch (st.op)
            {
            case OP_plus_assign: { It& r = (a += d); if (&r != &a) viol("ret", "+= does not return *this"); pos[w] = q; ++run.changing; } break;
            case OP_minus_assign: { It& r = (a -= (-d)); if (&r != &a) viol("ret", "-= does not return *this"); pos[w] = q; ++run.changing; } break;
            case OP_plus:
                { It r = foreign_of(k, 0); r = a + d; expect_at(r, q, "it + n"); expect_at(a, p, "it after it + n");
                  if (!(fwd_only && d < 0)) { if ((r - a) != d) viol("diff", "(it + n) - it == " + std::to_string(static_cast<long>(r - a)) + ", n == " + std::to_string(static_cast<long>(d))); }
                  else if ((a - r) != -d) viol("diff", "it - (it + n) == " + std::to_string(static_cast<long>(a - r)) + ", n == " + std::to_string(static_cast<long>(d)));
                  It back = r - d; expect_at(back, p, "(it + n) - n"); }
                break;
            case OP_n_plus: { It r = foreign_of(k, 0); r = d + a; expect_at(r, q, "n + it"); if (!(r == a + d)) viol("position", "n + it != it + n"); } break;
            case OP_minus: { It r = a - (-d); expect_at(r, q, "it - n"); expect_at(a, p, "it after it - n"); } break;
            case OP_index:
                if (q < k.n)
                {
                    long got = k.index(a, d);
                    if (got != k.model(q)) viol("index", "it[n] reads " + std::to_string(got) + ", *(it + n) is element " + std::to_string(q) + " == " + std::to_string(k.model(q)));
                }
                else stats().add("skipped.index_at_end");
                break;
            case OP_diff:
                { std::ptrdiff_t want = static_cast<std::ptrdiff_t>(p) - static_cast<std::ptrdiff_t>(pos[1 - w]);
                  if (fwd_only)
                  {
                      std::ptrdiff_t got = want >= 0 ? a - b : b - a;
                      if (got != (want >= 0 ? want : -want)) viol("diff", "the forward difference of positions " + std::to_string(p) + " and " + std::to_string(pos[1 - w]) + " is " + std::to_string(static_cast<long>(got)));
                      break;
                  }
                  std::ptrdiff_t got = a - b;
                  if (got != want) viol("diff", "a - b == " + std::to_string(static_cast<long>(got)) + " for positions " + std::to_string(p) + " and " + std::to_string(pos[1 - w]));
                  if ((b - a) != -want) viol("diff", "b - a is not the negation of a - b"); }
                break;
            default: break;
            }
        }

        void compare_op(int w, std::true_type)
        {
            It& a = it[w]; It& b = it[1 - w];
            size_t pa = pos[w], pb = pos[1 - w];
            bool lt = a < b, le = a <= b, gt = a > b, ge = a >= b, eq = a == b, ne = a != b;
            if (lt != (pa < pb)) viol("lt", "a < b is " + std::string(lt ? "true" : "false") + " for positions " + std::to_string(pa) + " and " + std::to_string(pb));
            if (lt != ((b - a) > 0)) viol("lt", "a < b disagrees with b - a > 0");
            if (le != (pa <= pb)) viol("le", "a <= b wrong for positions " + std::to_string(pa) + " and " + std::to_string(pb));
            if (gt != (pa > pb)) viol("gt", "a > b wrong for positions " + std::to_string(pa) + " and " + std::to_string(pb));
            if (ge != (pa >= pb)) viol("ge", "a >= b wrong for positions " + std::to_string(pa) + " and " + std::to_string(pb));
            if (eq != (pa == pb)) viol("eq", "a == b wrong for positions " + std::to_string(pa) + " and " + std::to_string(pb));
            if (ne == eq) viol("ne", "!= is not the negation of ==");
        }
        void compare_op(int w, std::false_type)
        {
            bool eq = it[w] == it[1 - w], ne = it[w] != it[1 - w];
            if (eq != (pos[w] == pos[1 - w])) viol("eq", "a == b wrong for positions " + std::to_string(pos[w]) + " and " + std::to_string(pos[1 - w]));
            if (ne == eq) viol("ne", "!= is not the negation of ==");
        }

        void ext_op(const Step& st, int w, std::false_type) { (void)st; (void)w; stats().add("skipped.no_size_t_overloads"); }
        void ext_op(const Step& st, int w, std::true_type)
        {
            size_t p = pos[w];
            It& a = it[w];
            size_t up = static_cast<size_t>(st.a % (k.n - p + 1));      // forward offset
            size_t down = static_cast<size_t>(st.a % (p + 1));          // backward offset
            switch (st.op)
            {
            case OP_ext_plus: { It r = a + up; expect_at(r, p + up, "it + size_t n"); if (!(r == a + static_cast<std::ptrdiff_t>(up))) viol("ext", "size_t and difference_type overloads of + disagree"); } break;
            case OP_ext_n_plus: { It r = up + a; expect_at(r, p + up, "size_t n + it"); } break;
            case OP_ext_minus: { It r = a - down; expect_at(r, p - down, "it - size_t n"); if (!(r == a - static_cast<std::ptrdiff_t>(down))) viol("ext", "size_t and difference_type overloads of - disagree"); } break;
            default:
                if (p + up < k.n) { int x = a[up]; int y = a[static_cast<std::ptrdiff_t>(up)]; if (x != y || x != k.model(p + up)) viol("ext", "it[size_t n] reads " + std::to_string(x)); }
                break;
            }
            SIM_PROBE("size_t_overload_used");
        }

        void step(const Step& st)
        {
            int w = st.actor % 2;
            StepScope sc(run, st, plan.cfg.c_str());
            tail = op_name(st.op);
            run.abstract(mix(strhash(plan.cfg.c_str()), static_cast<uint64_t>(st.op), (k.n == 0 ? 0 : (pos[w] == 0 ? 1 : (pos[w] == k.n ? 2 : 3)))));
            run.dig(static_cast<uint64_t>(st.op));
            It& a = it[w];
            size_t p = pos[w];
            switch (st.op)
            {
            case OP_pre_inc: if (p < k.n) { It& r = ++a; if (&r != &a) viol("ret", "++it does not return *this"); ++pos[w]; ++run.changing; } else stats().add("skipped.at_end"); break;
            case OP_pre_dec: if (p > 0) { It& r = --a; if (&r != &a) viol("ret", "--it does not return *this"); --pos[w]; ++run.changing; } else stats().add("skipped.at_begin"); break;
            case OP_post_inc: if (p < k.n) { It old = a++; expect_at(old, p, "value of it++"); ++pos[w]; ++run.changing; SIM_PROBE("post_increment"); } else stats().add("skipped.at_end"); break;
            case OP_post_dec: if (p > 0) { It old = a--; expect_at(old, p, "value of it--"); --pos[w]; ++run.changing; } else stats().add("skipped.at_begin"); break;
            case OP_plus_assign: case OP_minus_assign: case OP_plus: case OP_n_plus: case OP_minus: case OP_index: case OP_diff:
                random_access_op(st, w, std::integral_constant<bool, K::ra>()); break;
            case OP_compare: compare_op(w, std::integral_constant<bool, K::lt>()); break;
            case OP_deref: if (p < k.n) { if (k.value(a) != k.model(p)) viol("deref", "*it reads " + std::to_string(k.value(a)) + ", expected " + std::to_string(k.model(p))); } break;
            case OP_traverse:
                if (is_huge<K>::value) { stats().add("skipped.traversal_of_huge_container"); break; }
                {
                    size_t c = 0;
                    for (It x = k.begin(); x != k.end(); ++x, ++c) { if (c >= k.n || k.value(x) != k.model(c)) viol("traverse", "forward traversal differs at " + std::to_string(c)); }
                    if (c != k.n) viol("traverse", "forward traversal visits " + std::to_string(c) + " of " + std::to_string(k.n) + " elements");
                    c = k.n;
                    for (It x = k.end(); x != k.begin();) { --x; --c; if (k.value(x) != k.model(c)) viol("traverse", "backward traversal differs at " + std::to_string(c)); }
                    if (c != 0) viol("traverse", "backward traversal stops early");
                    if (k.n == 0) SIM_PROBE("traversal_of_empty_container");
                }
                break;
            case OP_ext_plus: case OP_ext_n_plus: case OP_ext_minus: case OP_ext_index: ext_op(st, w, std::integral_constant<bool, K::ext>()); break;
            case OP_write:
                if (K::mut && p < k.n) { k.write(a, p, static_cast<long>(st.b % 1000)); ++run.changing; SIM_PROBE("write_through_iterator"); }
                break;
            case OP_reseat:
                {
                    size_t n = static_cast<size_t>(st.a % 41);
                    if ((st.a >> 8) % 5 == 0) n = 0;
                    k.build(n, env);
                    pos[0] = pick_pos(st.b, is_huge<K>()); pos[1] = pick_pos(st.c, is_huge<K>());
                    if (is_huge<K>::value) SIM_PROBE("positions_beyond_2^31");
                    it[0] = foreign_of(k, 0);
                    it[0] = k.at(pos[0]); it[1] = k.at(pos[1]);
                    ++run.changing;
                    SIM_PROBE("container_resized_walkers_reseated");
                }
                break;
            default: break;
            }
            check_walkers();
        }
        void run_all() { check_walkers(); for (const Step& st : plan.steps) as_caller(run, st, [&] { step(st); }); }
    };

    void gen(Plan& plan, Rng& cfg, Rng& pr, int)
    {
        size_t n = 1;
        while (n < 40 && cfg.below(14) != 0) ++n;
        plan.params.push_back(n);
        plan.params.push_back(cfg.below(5) == 0 ? 0 : cfg.below(41));     // initial container size
        unsigned w[OP_COUNT];
        for (unsigned i = 0; i < OP_COUNT; ++i) w[i] = 4;
        w[OP_reseat] = 1; w[OP_traverse] = 2;
        if (cfg.below(3) == 0) for (unsigned i = 0; i < OP_COUNT; ++i) if (cfg.below(4) == 0) w[i] = 0;
        unsigned total = 0;
        for (unsigned i = 0; i < OP_COUNT; ++i) total += w[i];
        if (!total) { w[OP_plus] = 1; total = 1; }
        for (size_t i = 0; i < n; ++i)
        {
            Step s;
            uint64_t pick = pr.below(total);
            for (unsigned o = 0; o < OP_COUNT; ++o) { if (pick < w[o]) { s.op = static_cast<int>(o); break; } pick -= w[o]; }
            s.actor = static_cast<int>(pr.below(2));
            s.a = pr.next() >> 40; s.b = pr.next() >> 40; s.c = pr.next() >> 40; s.d = pr.next() >> 44;
            plan.steps.push_back(s);
        }
    }
    template <class K> void exec(const Plan& plan, Run& run)
    {
        std::unique_ptr<World<K>> w(new World<K>(run, plan));
        w->run_all();
    }

    using OV = xtl::xoptional_vector<int>;
    using OA = xtl::xoptional_array<int, 9>;
    using CV = xtl::xcomplex_vector<double>;
    using CA = xtl::xcomplex_array<double, 9>;
#define IT_CFG(name, ...) RegisterCfg reg_##name(#name, gen, exec<__VA_ARGS__>, 1, false)
    IT_CFG(bitset_u8, BitsetKind<uint8_t, false>);
    IT_CFG(bitset_u64_const, BitsetKind<uint64_t, true>);
    IT_CFG(bitset_u32, BitsetKind<uint32_t, false>);
    IT_CFG(bitset_signed_char_blocks, BitsetKind<signed char, false>);       // signed block types: one value bit less than bits
    IT_CFG(bitset_long_long_blocks_const, BitsetKind<long long, true>);
    IT_CFG(optional_vector, OptKind<OV, 0>);
    IT_CFG(optional_vector_const, OptKind<OV, 1>);
    IT_CFG(optional_vector_reverse, OptKind<OV, 2>);
    IT_CFG(optional_vector_const_reverse, OptKind<OV, 3>);
    IT_CFG(optional_vector_const_begin, OptKind<OV, 4>);
    IT_CFG(optional_array_const_reverse, OptKind<OA, 3>);
    IT_CFG(complex_vector_const_reverse, CplxKind<CV, 3>);
    IT_CFG(complex_vector_const_begin, CplxKind<CV, 4>);
    IT_CFG(complex_array_const_reverse, CplxKind<CA, 3>);
    IT_CFG(optional_array, OptKind<OA, 0>);
    IT_CFG(optional_array_reverse, OptKind<OA, 2>);
    IT_CFG(complex_vector, CplxKind<CV, 0>);
    IT_CFG(complex_vector_const, CplxKind<CV, 1>);
    IT_CFG(complex_vector_reverse, CplxKind<CV, 2>);
    IT_CFG(complex_array, CplxKind<CA, 0>);
    IT_CFG(stepping_1, SteppingKind<1>);
    IT_CFG(stepping_2, SteppingKind<2>);
    IT_CFG(stepping_3, SteppingKind<3>);
    IT_CFG(stepping_5, SteppingKind<5>);
    IT_CFG(map_keys, MapKind<false>);
    IT_CFG(map_values, MapKind<true>);
    IT_CFG(minimal_with_ext, MiniKind);
    IT_CFG(stepping_3_over_bitset_iterator, SteppingOverBitsetKind<3>);
    IT_CFG(stepping_1_over_bitset_iterator, SteppingOverBitsetKind<1>);
    IT_CFG(stepping_2_over_list_iterator, SteppingOverListKind<2>);
    IT_CFG(stepping_4_over_list_iterator, SteppingOverListKind<4>);
    IT_CFG(stepping_offsets_beyond_2e31, HugeOffsetSteppingKind);
    IT_CFG(bitset_view_of_more_than_2e31_bits, HugeBitsetKind);
    IT_CFG(stepping_by_more_than_2e31, HugeSteppingKind);
    IT_CFG(optional_iterator_over_more_than_2e31_elements, HugeOptionalKind);
}
