// harness `seq` — C11: xoptional_vector/array and xcomplex_vector/array keep their two parallel storages in
// lock-step and index them alike through every access path.
//   -DSQ_FAMILY=0 (optional) | 1 (complex)   -DSQ_T=int|double   [-DSQ_MAIN]
#ifdef SQ_MAIN
#  define SIMKIT_MAIN
#endif
#include "../../sim/simkit.hpp"

#include <array>
#include <limits>
#include <vector>

#include "xtl/xoptional_sequence.hpp"
#include "xtl/xcomplex_sequence.hpp"

#define SEQ_OPS(X) X(construct) X(resize) X(write) X(storage_write) X(copy_assign) X(move_assign) X(compare) X(at) X(read_paths)

namespace sqops
{
#define X(n) OP_##n,
    enum Op { SEQ_OPS(X) OP_COUNT };
#undef X
}

#ifdef SQ_MAIN
namespace sim
{
    const char* const harness_name = "seq";
    const bool caller_threads_enabled = true;
#define X(n) #n,
    const char* const op_names[] = {SEQ_OPS(X)};
#undef X
    const int op_count = sqops::OP_COUNT;
    const char* const fault_names[] = {"none", "throw", "alloc", "stream", "syscall", nullptr};
    bool workload_admits(const std::string&, const std::string&) { return true; }
    int enumerate_kind() { return 0; }
}
#endif

#ifdef SQ_THROWING
// An element type whose construction from a value, copy construction and copy assignment may throw (injected),
// lifetime-tracked.  Default construction cannot fail: xtl::missing<T>() is noexcept and default-constructs a T.
struct FT : sim::Tracked<31, 1, true, true>
{
    using Base = sim::Tracked<31, 1, true, true>;
    FT() noexcept : Base(Base::no_fault()) {}
    FT(int v) : Base(static_cast<uint64_t>(static_cast<int64_t>(v))) {}
    explicit operator long long() const { return static_cast<long long>(static_cast<int64_t>(id)); }
    friend FT operator+(const FT& a, int b) { return FT(static_cast<int>(static_cast<int64_t>(a.id)) + b); }
    friend std::ostream& operator<<(std::ostream& o, const FT& a) { return o << static_cast<long long>(a); }
};
#endif

namespace
{
    using namespace sim;
    using namespace sqops;
    using T = SQ_T;
#ifdef SQ_THROWING
    constexpr bool throwing_elements = true;
#else
    constexpr bool throwing_elements = false;
#endif
    // only the xtl call itself runs with faults enabled; models, arguments and checks run suspended
    struct Active
    {
        int saved;
        Active() : saved(fstate().suspend) { fstate().suspend = 0; }
        ~Active() { fstate().suspend = saved; }
    };
    // returns false when an injected throw came out of the call
    template <class F> bool xcall(F f)
    {
        try { Active a; f(); return true; }
        catch (const Injected&) { return false; }
    }

    template <class V> inline bool moved_from(const V&) { return false; }
#ifdef SQ_THROWING
    inline bool moved_from(const FT& v) { return v.moved; }
#endif

    // ---- the two container families behind one interface ---------------------------------------
#if SQ_FAMILY == 0
    using Second = bool;
    using Elem = std::pair<T, bool>;
    const char* const family_name = "optional";
    template <class R> Elem read_ref(const R& r) { return Elem(static_cast<T>(r.value()), static_cast<bool>(r.has_value())); }
    template <class C> size_t size1(const C& c) { return c.value().size(); }
    template <class C> size_t size2(const C& c) { return c.has_value().size(); }
    template <class C> Elem storage(const C& c, size_t i) { return Elem(c.value()[i], static_cast<bool>(c.has_value()[i])); }
    template <class C> void storage_set(C& c, size_t i, int which, T a, bool b) { if (which == 0) c.value()[i] = a; else c.has_value()[i] = b; }
    Elem fresh_elem() { return Elem(T(), false); }                 // default construction / resize(s): missing
    Elem elem_of(T a, T /*b*/, bool f) { return Elem(a, f); }
    // whole-value writes into a proxy
    const char* const write_forms[] = {"assign_optional", "assign_missing", "assign_scalar", "value_ref", "flag_ref", "own_value_other_flag", "own_value_other_flag_lvalue", "swap_two_proxies_of_the_element"};
    constexpr unsigned n_write_forms = 8;
    template <class R> void write_ref(R&& r, unsigned form, T a, T /*b*/, bool f, Elem& m)
    {
        switch (form)
        {
        case 0: r = xtl::xoptional<T, bool>(a, f); m = Elem(a, f); break;
        case 1: r = xtl::missing<T>(); m = Elem(T(), false); break;
        case 2: r = a; m = Elem(a, true); break;
        case 3: r.value() = a; m.first = a; break;
        // "keep the value, change the flag": the assigned optional's value closure designates the element's own value
        case 5: r = xtl::optional(r.value(), f); m.second = f; break;
        case 6: { auto o = xtl::optional(r.value(), f); r = o; m.second = f; } break;
        // two proxies onto the same element exchanged: the element keeps its value and its flag
        case 7: { auto q = r; q.swap(r); } break;
        default: r.has_value() = f; m.second = f; break;
        }
    }
#ifdef SQ_FLAG_BLOCK
    // flags kept in a bitset of a narrow block type
    template <size_t N> using Arr = xtl::xoptional_array<T, N, xtl::xdynamic_bitset<SQ_FLAG_BLOCK>>;
    using Vec = xtl::xoptional_vector<T, std::allocator<T>, xtl::xdynamic_bitset<SQ_FLAG_BLOCK>>;
#else
    template <size_t N> using Arr = xtl::xoptional_array<T, N>;
    using Vec = xtl::xoptional_vector<T>;
#endif
#else
    using Second = T;
    using Elem = std::pair<T, T>;
    const char* const family_name = "complex";
    template <class R> Elem read_ref(const R& r) { return Elem(static_cast<T>(r.real()), static_cast<T>(r.imag())); }
    template <class C> size_t size1(const C& c) { return c.real().size(); }
    template <class C> size_t size2(const C& c) { return c.imag().size(); }
    template <class C> Elem storage(const C& c, size_t i) { return Elem(c.real()[i], c.imag()[i]); }
    template <class C> void storage_set(C& c, size_t i, int which, T a, T b) { if (which == 0) c.real()[i] = a; else c.imag()[i] = b; }
    Elem fresh_elem() { return Elem(T(), T()); }                   // default construction / resize(s): zero
    Elem elem_of(T a, T b, bool) { return Elem(a, b); }
    const char* const write_forms[] = {"assign_scalar", "real_ref", "imag_ref", "plus_assign_scalar", "assign_own_imag", "assign_own_real"};
    constexpr unsigned n_write_forms = 6;
    template <class R> void write_ref(R&& r, unsigned form, T a, T b, bool, Elem& m)
    {
        switch (form)
        {
        case 0: r = a; m = Elem(a, T()); break;
        case 1: r.real() = a; m.first = a; break;
        case 2: r.imag() = b; m.second = b; break;
        // the assigned scalar is (a reference to) one of the element's own parts: z = z.imag() is (im, 0), z = z.real() is (re, 0)
        case 4: r = r.imag(); m = Elem(m.second, T()); break;
        case 5: r = r.real(); m = Elem(m.first, T()); break;
        default: r += a; m.first = static_cast<T>(m.first + a); break;
        }
    }
#define SQ_PROXY_TO_PROXY 1
    template <size_t N> using Arr = xtl::xcomplex_array<T, N>;
    using Vec = xtl::xcomplex_vector<T>;
#endif
    using Model = std::vector<Elem>;

    std::string show(const Elem& e) { std::ostringstream o; o << "(" << e.first << ", " << e.second << ")"; return o.str(); }

    template <class C, size_t FIXED>   // FIXED == 0: vector
    struct World
    {
        static constexpr bool is_vector = FIXED == 0;
        Suspend everything_but_xtl_calls;
        Run& run;
        const Plan& plan;
        Rng env;
        Slot<C> slot[2];
        Model model[2];
        std::string tail;

        World(Run& r, const Plan& p) : run(r), plan(p), env(stream(p.seed, TAG_ENV))
        {
            registry().reset();
            registry().sigprefix = "C11";
            tail = "initial/-";
            for (int i = 0; i < 2; ++i) construct(i, 0, 0, T(), T(), false, env.next() & 1);
        }
        ~World() { for (int i = 0; i < 2; ++i) { slot[i].get().~C(); slot[i].unguard(); } clear_pending(); }
        [[noreturn]] void viol(const char* cls, const char* oracle, const std::string& msg) { fail(cls, std::string("C11/") + oracle + "/" + tail, msg); }

        static size_t size_pick(uint64_t raw)
        {
            if (!is_vector) return FIXED;                       // array variants are called with their own size
            unsigned sel = raw & 7; raw >>= 3;
            if (sel == 0) return 0;
            if (sel == 1) return 1;
            if (sel == 2) return 64;
            if (sel == 3) return 65;
            return static_cast<size_t>(raw % 40);
        }
        static T val(uint64_t raw) { return static_cast<T>(static_cast<int>(raw % 2001) - 1000); }
#if SQ_FAMILY == 0
        static Second second_of(uint64_t raw) { return (raw & 1) != 0; }
#else
        static Second second_of(uint64_t raw) { return val(raw); }
#endif

        // constructor forms: 0 default (default-initialised or value-initialised placement), 1 size, 2 size+value, 3 size+closure-kind value, 4 initializer list
        void construct(int i, unsigned form, size_t n, T a, T b, bool f, bool value_init)
        {
            slot[i].prepare(env, env.next());       // seeded garbage underneath
            C* p = slot[i].ptr();
            Model& m = model[i];
            bool ok = true;
            switch (form)
            {
            case 0:
                ok = xcall([&] { if (value_init) new (p) C(); else new (p) C; });      // `C x;` is default-initialisation
                m.assign(is_vector ? 0 : FIXED, fresh_elem());
                if (!is_vector) { if (value_init) SIM_PROBE("array_value_initialised"); else SIM_PROBE("array_default_initialised_over_dirty_memory"); }
                break;
            case 1: ok = construct_size(p, n, m); break;
            case 2: ok = construct_size_value(p, n, a, b, f, m); break;
            case 3: ok = construct_size_other(p, n, a, b, f, m); break;
            default: ok = construct_ilist(p, a, b, m, std::integral_constant<bool, is_vector && SQ_FAMILY == 1>()); break;
            }
            if (!ok)
            {
                // an element constructor threw: no container exists; every element built so far must be gone again
                SIM_PROBE("constructor_threw");
                new (p) C();
                m.assign(is_vector ? 0 : FIXED, fresh_elem());
            }
        }
#if SQ_FAMILY == 0
        bool construct_size(C* p, size_t n, Model& m) { T seven(7); m.assign(n, Elem(seven, true)); return xcall([&] { new (p) C(n, seven); }); }
        bool construct_size_value(C* p, size_t n, T a, T, bool, Model& m) { m.assign(n, Elem(a, true)); return xcall([&] { new (p) C(n, a); }); }
        bool construct_size_other(C* p, size_t n, T a, T, bool f, Model& m)
        {
            if (f) { xtl::xoptional<T, bool> o(a, true); m.assign(n, Elem(a, true)); return xcall([&] { new (p) C(n, o); }); }
            if (n % 2) { xtl::xoptional<T, bool> mv(a, false); m.assign(n, Elem(a, false)); return xcall([&] { new (p) C(n, mv); }); }   // a missing optional still carries its value
            auto miss = xtl::missing<T>(); m.assign(n, Elem(T(), false)); return xcall([&] { new (p) C(n, miss); });
        }
        bool construct_ilist(C* p, T a, T, Model& m, std::false_type) { m.assign(is_vector ? 3 : FIXED, Elem(a, true)); return xcall([&] { new (p) C(is_vector ? 3 : FIXED, a); }); }
        bool construct_ilist(C* p, T a, T b, Model& m, std::true_type) { return construct_ilist(p, a, b, m, std::false_type()); }
#else
        bool construct_size(C* p, size_t n, Model& m) { new (p) C(n); m.assign(n, fresh_elem()); return true; }
        bool construct_size_value(C* p, size_t n, T a, T b, bool, Model& m) { new (p) C(n, typename C::value_type(a, b)); m.assign(n, Elem(a, b)); return true; }
        bool construct_size_other(C* p, size_t n, T a, T b, bool, Model& m)
        {
            T ra = a, rb = b;
            xtl::xcomplex<T&, T&> ref(ra, rb);           // a complex over reference closures
            new (p) C(n, ref); m.assign(n, Elem(a, b));
            return true;
        }
        bool construct_ilist(C* p, T a, T b, Model& m, std::true_type)
        {
            using V = typename C::value_type;
            new (p) C({V(a, b), V(b, a), V(a, a)});
            m = Model{Elem(a, b), Elem(b, a), Elem(a, a)};
            return true;
        }
        bool construct_ilist(C* p, T a, T b, Model& m, std::false_type) { return construct_size_value(p, is_vector ? 3 : FIXED, a, b, false, m); }
#endif

        struct Scope
        {
            std::string qual;
            StepScope sc;
            Scope(World& w, const Step& st, const char* family, const std::string& variant, int t)
                : qual(variant + "," + (w.model[t].empty() ? "empty" : (w.model[t].size() == 1 ? "size1" : "sizeN"))), sc(w.run, st, qual.c_str())
            {
                w.tail = std::string(family) + "/" + variant;
                w.run.abstract(mix(strhash(family), strhash(qual.c_str()), FIXED));
                w.run.dig(strhash(family) ^ strhash(variant.c_str()));
            }
        };

        // ---- invariants: lock-step and every access path ---------------------------------------------
        void check_one(int i)
        {
            C& c = slot[i].get();
            const C& cc = c;
            const Model& m = model[i];
            std::string who = "container " + std::to_string(i) + ": ";
            if (!slot[i].canaries_ok()) viol("containment", "canary", who + "memory around the container object was overwritten");
            if (cc.size() != m.size()) viol("invariant", "size", who + "size() == " + std::to_string(cc.size()) + ", expected " + std::to_string(m.size()));
            if (size1(cc) != cc.size() || size2(cc) != cc.size())
                viol("invariant", "lockstep", who + "storages have " + std::to_string(size1(cc)) + " and " + std::to_string(size2(cc)) + " elements, size() is " + std::to_string(cc.size()));
            if (cc.empty() != m.empty()) viol("invariant", "size", who + "empty() disagrees");
            for (size_t k = 0; k < m.size(); ++k)
            {
                if (storage(cc, k) != m[k]) viol("invariant", "storage", who + "storages hold " + show(storage(cc, k)) + " at " + std::to_string(k) + ", expected " + show(m[k]));
                if (read_ref(cc[k]) != m[k] || read_ref(c[k]) != m[k]) viol("invariant", "index", who + "operator[] at " + std::to_string(k) + " reads " + show(read_ref(cc[k])) + ", expected " + show(m[k]));
                if (read_ref(cc.at(k)) != m[k] || read_ref(c.at(k)) != m[k]) viol("invariant", "at", who + "at(" + std::to_string(k) + ") reads another element");
            }
            if (!m.empty())
            {
                if (read_ref(cc.front()) != m.front() || read_ref(c.front()) != m.front()) viol("invariant", "front", who + "front() reads " + show(read_ref(cc.front())) + ", expected " + show(m.front()));
                if (read_ref(cc.back()) != m.back() || read_ref(c.back()) != m.back()) viol("invariant", "back", who + "back() reads " + show(read_ref(cc.back())) + ", expected " + show(m.back()));
            }
            size_t k = 0;
            for (auto it = c.begin(); it != c.end(); ++it, ++k) if (k >= m.size() || read_ref(*it) != m[k]) viol("invariant", "iter", who + "iteration differs at " + std::to_string(k));
            if (k != m.size()) viol("invariant", "iter", who + "iteration visits " + std::to_string(k) + " elements");
            k = 0;
            for (auto it = cc.cbegin(); it != cc.cend(); ++it, ++k) if (k >= m.size() || read_ref(*it) != m[k]) viol("invariant", "iter", who + "const iteration differs at " + std::to_string(k));
            if (k != m.size()) viol("invariant", "iter", who + "const iteration length");
            k = 0;
            for (auto it = cc.begin(); it != cc.end(); ++it, ++k) if (k >= m.size() || read_ref(*(it.operator->())) != m[k]) viol("invariant", "iter", who + "operator-> differs at " + std::to_string(k));
            k = m.size();
            for (auto it = c.rbegin(); it != c.rend(); ++it) { if (k == 0 || read_ref(*it) != m[k - 1]) viol("invariant", "iter", who + "reverse iteration differs"); --k; }
            if (k != 0) viol("invariant", "iter", who + "reverse iteration length");
            k = m.size();
            for (auto it = cc.crbegin(); it != cc.crend(); ++it) { if (k == 0 || read_ref(*it) != m[k - 1]) viol("invariant", "iter", who + "const reverse iteration differs"); --k; }
            if (k != 0) viol("invariant", "iter", who + "const reverse iteration length");
            k = m.size();
            for (auto it = cc.rbegin(); it != cc.rend(); ++it) { if (k == 0 || read_ref(*it) != m[k - 1]) viol("invariant", "iter", who + "reverse iteration through a const container differs"); --k; }
            if (k != 0) viol("invariant", "iter", who + "rbegin()/rend() of a const container visit " + std::to_string(m.size() - k) + " of " + std::to_string(m.size()) + " elements");
            if (static_cast<size_t>(cc.end() - cc.begin()) != m.size() || static_cast<size_t>(cc.cend() - cc.cbegin()) != m.size() ||
                static_cast<size_t>(c.rend() - c.rbegin()) != m.size() || static_cast<size_t>(cc.rend() - cc.rbegin()) != m.size() || static_cast<size_t>(cc.crend() - cc.crbegin()) != m.size())
                viol("invariant", "iter", who + "an end() - begin() distance differs from size()");
            if (static_cast<size_t>(c.end() - c.begin()) != m.size()) viol("invariant", "iter", who + "end() - begin() != size()");
            run.dig(m.size());
            for (const Elem& e : m) { run.dig(static_cast<uint64_t>(static_cast<long long>(e.first))); run.dig(static_cast<uint64_t>(static_cast<long long>(e.second))); }
        }
        void check_all()
        {
            try { raise_pending(); } catch (Violation& v) { v.sig += "/" + tail; throw; }
            check_one(0); check_one(1);
            for (int i = 0; i < 2; ++i) elements_live(slot[i].get(), std::integral_constant<bool, throwing_elements>());
        }
        // value_or() on the temporary proxies the element accessors hand out is a read: it returns the element's value (or the
        // default for a missing element) and leaves the element as it was - in particular not moved-from
#if SQ_FAMILY == 0
        void read_value_or(const Step& st)
        {
            int t = st.actor % 2;
            C& c = slot[t].get();
            if (c.size() == 0) return;
            size_t i = static_cast<size_t>(st.a % c.size());
            const Elem want = model[t][i];
            T dflt = val(st.b);
            for (int form = 0; form < 6; ++form)
            {
                T got = T();
                bool ok = xcall([&] {
                    switch (form)
                    {
                    case 0: got = c[i].value_or(dflt); break;
                    case 1: got = c.at(i).value_or(dflt); break;
                    case 2: got = (*(c.begin() + static_cast<std::ptrdiff_t>(i))).value_or(dflt); break;
                    case 3: got = c.begin()[static_cast<std::ptrdiff_t>(i)].value_or(dflt); break;
                    case 4: got = (i == 0 ? c.front() : c[i]).value_or(dflt); break;
                    default: got = (i + 1 == c.size() ? c.back() : c[i]).value_or(dflt); break;
                    }
                });
                if (!ok) continue;       // the copy into the result threw (injected): nothing to compare, the element is checked below
                T expect = want.second ? want.first : dflt;
                if (!(got == expect)) viol("model", "value_or", "value_or() on the proxy of element " + std::to_string(i) + " (form " + std::to_string(form) + ") returned another value");
                if (moved_from(c.value()[i])) viol("model", "value_or", "value_or() on a temporary element proxy (form " + std::to_string(form) + ") moved the element's value out of the container");
            }
            SIM_PROBE("value_or_on_temporary_element_proxies");
        }
#else
        void read_value_or(const Step&) {}
#endif
        // every element of the value storage is a live object constructed where it is (leaks are caught at teardown, when
        // the models are gone and nothing may be left alive)
        void elements_live(const C&, std::false_type) {}
        void elements_live(const C& c, std::true_type)
        {
            for (size_t k = 0; k < size1(c); ++k)
            {
                const T& e = c.value()[k];
                if (!registry().is_live(&e, 31) || !placed(e)) viol("lifetime", "element-not-live", "element " + std::to_string(k) + " of the value storage is not a live, properly constructed object");
            }
        }
        // after an injected throw came out of resize: the property's own words - both storages as long as size() - and
        // whatever the storages now hold becomes the model (the property does not say which elements survive)
        void resync_after_throw(int t)
        {
            const C& cc = slot[t].get();
            if (size1(cc) != cc.size() || size2(cc) != cc.size())
                viol("invariant", "lockstep-after-throw", "after an element constructor threw inside the call the storages have " + std::to_string(size1(cc)) + " and " +
                     std::to_string(size2(cc)) + " elements, size() is " + std::to_string(cc.size()));
            model[t].clear();
            for (size_t k = 0; k < cc.size(); ++k) model[t].push_back(storage(cc, k));
            SIM_PROBE("resize_threw");
        }

        // ---- operations ------------------------------------------------------------------------------
        void op_construct(const Step& st)
        {
            int t = st.actor % 2;
            static const char* const vn[] = {"default_init", "value_init", "size", "size_value", "size_other_closure", "ilist"};
            unsigned v = static_cast<unsigned>(st.d % 6);
            Scope sc(*this, st, "construct", vn[v], t);
            slot[t].get().~C();
            construct(t, v <= 1 ? 0 : v - 1, size_pick(st.a), val(st.b), val(st.c), st.b & 1, v == 1);
            ++run.changing;
            check_all();
        }

        void op_resize(const Step& st) { op_resize_impl(st, std::integral_constant<bool, is_vector>()); }
        void op_resize_impl(const Step& st, std::false_type) { Scope sc(*this, st, "resize", "not_for_arrays", st.actor % 2); stats().add("skipped.resize_of_array"); }
        void op_resize_impl(const Step& st, std::true_type)
        {
            int t = st.actor % 2;
            // n_own_element: the fill value is a proxy onto an element of the container itself (as std::vector allows)
            static const char* const vn[] = {"n", "n_value", "n_other_closure", "n_own_element", "n_own_back"};
            unsigned v = static_cast<unsigned>(st.d % 5);
            if (v >= 3 && model[t].empty()) v = 1;
            Scope sc(*this, st, "resize", vn[v], t);
            size_t n = size_pick(st.a);
            T a = val(st.b), b = val(st.c);
            bool f = st.b & 1;
            C& c = slot[t].get();
            Model& m = model[t];
            if (n == 0 && !m.empty()) SIM_PROBE("resize_to_zero");
            if (m.empty() && n > 0) SIM_PROBE("grow_from_empty");
            if (n < m.size()) SIM_PROBE("shrink");
            if (!do_resize(c, m, v, n, a, b, f)) resync_after_throw(t);
            ++run.changing;
            check_all();
        }
#if SQ_FAMILY == 0
        bool do_resize(C& c, Model& m, unsigned v, size_t n, T a, T, bool f)
        {
            if (v >= 3)
            {
                size_t i = v == 3 ? static_cast<size_t>(static_cast<uint64_t>(static_cast<long long>(a) + 1000) % m.size()) : m.size() - 1;
                Elem e = m[i];
                m.resize(n, e);
                SIM_PROBE("resize_with_own_element");
                return xcall([&] { if (v == 3) c.resize(n, c[i]); else c.resize(n, c.back()); });
            }
            if (v == 0) { m.resize(n, fresh_elem()); return xcall([&] { c.resize(n); }); }
            if (v == 1) { m.resize(n, Elem(a, true)); return xcall([&] { c.resize(n, a); }); }
            if (f) { xtl::xoptional<T, bool> o(a, true); m.resize(n, Elem(a, true)); return xcall([&] { c.resize(n, o); }); }
            if (n % 2) { xtl::xoptional<T, bool> mv(a, false); m.resize(n, Elem(a, false)); return xcall([&] { c.resize(n, mv); }); }   // a missing optional still carries its value
            auto miss = xtl::missing<T>(); m.resize(n, Elem(T(), false)); return xcall([&] { c.resize(n, miss); });
        }
#else
        bool do_resize(C& c, Model& m, unsigned v, size_t n, T a, T b, bool)
        {
            if (v >= 3)
            {
                size_t i = v == 3 ? static_cast<size_t>(static_cast<uint64_t>(static_cast<long long>(a) + 1000) % m.size()) : m.size() - 1;
                Elem e = m[i];
                if (v == 3) c.resize(n, c[i]); else c.resize(n, c.back());
                m.resize(n, e);
                SIM_PROBE("resize_with_own_element");
            }
            else if (v == 0) { c.resize(n); m.resize(n, fresh_elem()); }
            else if (v == 1) { c.resize(n, typename C::value_type(a, b)); m.resize(n, Elem(a, b)); }
            else { T ra = a, rb = b; xtl::xcomplex<T&, T&> ref(ra, rb); c.resize(n, ref); m.resize(n, Elem(a, b)); }
            return true;
        }
#endif

        // a write through one of the proxies must land in exactly that pair and nowhere else
        void op_write(const Step& st)
        {
            int t = st.actor % 2;
            static const char* const paths[] = {"index", "at", "front", "back", "iterator", "reverse_iterator", "arrow"};
            unsigned path = static_cast<unsigned>(st.d % 7);
            unsigned form = static_cast<unsigned>((st.d / 7) % n_write_forms);
            Scope sc(*this, st, "write", std::string(paths[path]) + "_" + write_forms[form], t);
            C& c = slot[t].get();
            Model& m = model[t];
            if (m.empty()) { stats().add("skipped.write_to_empty"); return; }
            size_t i = static_cast<size_t>(st.a % m.size());
            T a = val(st.b), b = val(st.c);
            bool f = st.b & 1;
            std::ptrdiff_t di = static_cast<std::ptrdiff_t>(i);
            // proxies taken BEFORE the write and read after it: they are pairs of references, not snapshots
            const C& cc0 = c;
            auto held_const = cc0[i];
            auto held_const_it = cc0.begin() + di;
            auto held_mut = c[i];
            auto held_at = cc0.at(i);
#ifdef SQ_PROXY_TO_PROXY
            if ((st.c >> 20) % 4 == 0 && m.size() >= 2)
            {
                // one element proxy assigned to another (same container, other position): the value travels, the source stays
                size_t j = static_cast<size_t>((st.c >> 8) % m.size());
                if ((st.c >> 6) & 1) c[i] = c[j]; else *(c.begin() + di) = *(c.begin() + static_cast<std::ptrdiff_t>(j));
                m[i] = m[j];
                SIM_PROBE("proxy_assigned_to_proxy");
                ++run.changing;
                check_all();
                return;
            }
#endif
#if SQ_FAMILY == 0
            if ((st.c >> 20) % 4 == 1)
            {
                // an element proxy of ANOTHER optional container - other value type, other length, other position, hence another
                // bit of another flag block - assigned to this one: value and flag of that element arrive, nothing else moves
#if defined(SQ_THROWING)
                // (for the move-sensitive element type: same value type, another flag container - still another proxy type)
                using U = T;
                using Src = xtl::xoptional_vector<U, std::allocator<U>, xtl::xdynamic_bitset<uint16_t>>;
#elif defined(SQ_FLAG_BLOCK)
                using U = typename std::conditional<std::is_same<T, double>::value, float, long>::type;
                using Src = xtl::xoptional_vector<U, std::allocator<U>, xtl::xdynamic_bitset<SQ_FLAG_BLOCK>>;
#else
                using U = typename std::conditional<std::is_same<T, double>::value, float, long>::type;
                using Src = xtl::xoptional_vector<U>;
#endif
                size_t sn = 1 + static_cast<size_t>((st.c >> 8) % 150);
                Src src(sn, U(0));
                const int base = 3;
                uint64_t bits = st.b * 0x9e3779b97f4a7c15ULL + st.c;
                for (size_t k = 0; k < sn; ++k) { src[k] = static_cast<U>(static_cast<int>(k) + base); if (((bits >> (k % 59)) ^ (k / 59)) & 1) src.has_value()[k] = false; }
                size_t j = static_cast<size_t>((st.c >> 30) % sn);
                bool jf = static_cast<bool>(src.has_value()[j]);
                switch ((st.c >> 6) & 3)
                {
                case 0: c[i] = src[j]; break;
                case 1: c[i] = static_cast<const Src&>(src)[j]; break;
                case 2: *(c.begin() + di) = *(src.begin() + static_cast<std::ptrdiff_t>(j)); break;
                default: c.at(i) = src.at(j); break;
                }
                m[i] = Elem(static_cast<T>(static_cast<U>(static_cast<int>(j) + base)), jf);
                for (size_t k = 0; k < sn; ++k)
                    if (src[k].value() != static_cast<U>(static_cast<int>(k) + base) || moved_from(src[k].value()) || static_cast<bool>(src.has_value()[k]) != !(((bits >> (k % 59)) ^ (k / 59)) & 1))
                        viol("invariant", "source", "assigning from an element of another container changed that container (element " + std::to_string(k) + (moved_from(src[k].value()) ? " was moved from)" : ")"));
                SIM_PROBE("proxy_of_another_container_assigned");
                ++run.changing;
                check_all();
                return;
            }
#endif
#if SQ_FAMILY == 0 && defined(SQ_THROWING)
            if (st.fkind && path <= 1)
            {
                // the element type's assignment throws while a named optional is written into an element: value and flag of
                // that element both keep what they had (the pair is written value first; nothing else is touched)
                xtl::xoptional<T, bool> named(a, f);
                Elem old = m[i];
                bool ok = xcall([&] { if (path == 0) c[i] = named; else *(c.begin() + di) = named; });
                if (ok) m[i] = Elem(a, f);
                else
                {
                    Elem now = storage(c, i);
                    if (now != old) viol("invariant", "write-throw", "element " + std::to_string(i) + " is " + show(now) + " after a write whose value assignment threw; it was " + show(old) + " (one half of the pair was written)");
                    SIM_PROBE("element_write_threw");
                }
                ++run.changing;
                check_all();
                return;
            }
#endif
            switch (path)
            {
            case 0: write_ref(c[i], form, a, b, f, m[i]); break;
            case 1: write_ref(c.at(i), form, a, b, f, m[i]); break;
            case 2: write_ref(c.front(), form, a, b, f, m.front()); break;
            case 3: write_ref(c.back(), form, a, b, f, m.back()); break;
            case 4: write_ref(*(c.begin() + di), form, a, b, f, m[i]); break;
            case 5: write_ref(*(c.rbegin() + di), form, a, b, f, m[m.size() - 1 - i]); SIM_PROBE("write_through_reverse_iterator"); break;
            default: { auto it = c.begin() + di; write_ref(*(it.operator->()), form, a, b, f, m[i]); } break;
            }
            if (path != 2 && path != 3 && path != 5)
            {
                if (read_ref(held_const) != m[i] || read_ref(*held_const_it) != m[i] || read_ref(held_mut) != m[i] || read_ref(held_at) != m[i])
                    viol("invariant", "held-proxy", "a proxy onto element " + std::to_string(i) + " obtained before the write reads " + show(read_ref(held_const)) + "/" + show(read_ref(held_mut)) + " after it, the element is " + show(m[i]));
                SIM_PROBE("proxy_held_across_a_write");
            }
            ++run.changing;
            check_all();
        }

        // a second actor writes the underlying storages directly; the proxies must see it
        void op_storage_write(const Step& st)
        {
            int t = st.actor % 2;
            int which = static_cast<int>(st.d % 2);
            Scope sc(*this, st, "storage_write", which == 0 ? "first_storage" : "second_storage", t);
            C& c = slot[t].get();
            Model& m = model[t];
            if (m.empty()) { stats().add("skipped.write_to_empty"); return; }
            size_t i = static_cast<size_t>(st.a % m.size());
            T a = val(st.b);
            Second b = second_of(st.c);
            storage_set(c, i, which, a, b);
            if (which == 0) m[i].first = a; else m[i].second = b;
            if (read_ref(c[i]) != m[i]) viol("invariant", "index", "a write to the underlying storage is not visible through the proxy");
            SIM_PROBE("storage_write_observed_through_proxy");
            ++run.changing;
            check_all();
        }

        void op_assign(const Step& st, bool move)
        {
            int t = st.actor % 2;
            int s = 1 - t;
            bool self = (st.b % 5) == 0 && !move;
            Scope sc(*this, st, move ? "move_assign" : "copy_assign", self ? "self" : "other", t);
            C& c = slot[t].get();
            if (self) { const C& cc = c; c = cc; }
            else if (move)
            {
                c = std::move(slot[s].get());
                model[t] = model[s];
                // the moved-from source is unspecified: give it a definite value again
                slot[s].get().~C();
                construct(s, 0, 0, T(), T(), false, true);
            }
            else { c = static_cast<const C&>(slot[s].get()); model[t] = model[s]; }
            ++run.changing;
            check_all();
        }

        void op_compare(const Step& st)
        {
            int t = st.actor % 2;
            int s = 1 - t;
            unsigned v = static_cast<unsigned>(st.d % 4);
            static const char* const vn[] = {"as_is", "after_copy", "one_first_differs", "one_second_differs"};
            Scope sc(*this, st, "compare", vn[v], t);
            C& a = slot[t].get();
            C& b = slot[s].get();
            if (v >= 1) { b = static_cast<const C&>(a); model[s] = model[t]; ++run.changing; }
            if (v >= 2 && !model[s].empty())
            {
                size_t i = static_cast<size_t>(st.a % model[s].size());
                Elem& e = model[s][i];
                if (v == 2) { e.first = static_cast<T>(e.first + 1); storage_set(b, i, 0, e.first, e.second); }
                else { e.second = static_cast<Second>(SQ_FAMILY == 0 ? !e.second : e.second + 1); storage_set(b, i, 1, e.first, e.second); }
            }
            special_values(a, b, t, s, st, std::is_floating_point<T>());
            bool want = model[t] == model[s];
            bool eq = a == b, ne = a != b;
            if (eq != want || ne == want) viol("model", "equality", std::string("operator== returned ") + (eq ? "true" : "false") + " for containers that " + (want ? "match" : "differ") + " (" + vn[v] + ")");
            if (want) SIM_PROBE("compared_equal"); else SIM_PROBE("compared_unequal");
            check_all();
        }

        // == compares elements with the element type's own ==: 0.0 equals -0.0, NaN equals nothing (not a byte comparison)
        void special_values(C&, C&, int, int, const Step&, std::false_type) {}
        template <class TT = T>
        void special_values(C& a, C& b, int t, int s, const Step& st, std::true_type)
        {
            if (model[t].empty() || model[t].size() != model[s].size() || (st.c & 3) != 0) return;
            // make both equal first, then plant special values in the first storage of element i
            b = static_cast<const C&>(a); model[s] = model[t];
            size_t i = static_cast<size_t>(st.a % model[t].size());
            Elem keep = model[t][i];
            bool nan_case = (st.c >> 2) & 1;
            TT x = nan_case ? std::numeric_limits<TT>::quiet_NaN() : TT(0.0), y = nan_case ? x : -TT(0.0);
            storage_set(a, i, 0, x, keep.second); storage_set(b, i, 0, y, keep.second);
            bool want = !nan_case;     // "== holds exactly when sizes, values and flags all match": the storages are compared element by element with the element type's ==, whatever the flags say
            bool eq = a == b, ne = a != b;
            if (eq != want || ne == want)
                viol("model", "equality", std::string("operator== returned ") + (eq ? "true" : "false") + " for containers that differ only in " + (nan_case ? "a NaN against the same NaN" : "0.0 against -0.0") + " at one element");
            storage_set(a, i, 0, keep.first, keep.second); storage_set(b, i, 0, keep.first, keep.second);
            SIM_PROBE("compared_special_floating_point_values");
        }

        void op_at(const Step& st)
        {
            int t = st.actor % 2;
            const Model& m = model[t];
            size_t i = static_cast<size_t>(st.a % (m.size() + 3));
            if ((st.b & 3) == 0) i = m.size();
            if ((st.b & 15) == 5)
            {
                // indices no container can have: beyond PTRDIFF_MAX, where signed index arithmetic turns negative
                const size_t top = ~size_t(0);
                const size_t far[] = {top, top - 1, top / 2 + 1, top / 2 + 1 + m.size(), top - m.size(), top / 2 + 2};
                i = far[(st.b >> 4) % 6];
                if (i < m.size()) i = top;
            }
            Scope sc(*this, st, "at", i < m.size() ? "in_range" : "out_of_range", t);
            C& c = slot[t].get();
            const C& cc = c;
            bool threw = false, cthrew = false;
            try { (void)read_ref(c.at(i)); } catch (const std::out_of_range&) { threw = true; }
            try { (void)read_ref(cc.at(i)); } catch (const std::out_of_range&) { cthrew = true; }
            bool want = i >= m.size();
            if (threw != want || cthrew != want) viol("model", "at-range", "at(" + std::to_string(i) + ") " + (threw ? "threw" : "did not throw") + " for size " + std::to_string(m.size()));
            if (want) SIM_PROBE("at_out_of_range");
            check_all();
        }

        void step(const Step& st)
        {
            switch (st.op)
            {
            case OP_construct: op_construct(st); break;
            case OP_resize: op_resize(st); break;
            case OP_write: op_write(st); break;
            case OP_storage_write: op_storage_write(st); break;
            case OP_copy_assign: op_assign(st, false); break;
            case OP_move_assign: op_assign(st, true); break;
            case OP_compare: op_compare(st); break;
            case OP_at: op_at(st); break;
            case OP_read_paths: { Scope sc(*this, st, "read_paths", "all", st.actor % 2); read_value_or(st); check_all(); } break;
            default: { StepScope sc(run, st, "noop"); } break;
            }
        }
        void run_all()
        {
            check_all();
            for (const Step& st : plan.steps) as_caller(run, st, [&] { step(st); });
        }
    };

    void gen(Plan& plan, Rng& cfg, Rng& pr, int)
    {
        size_t n = 1;
        while (n < 30 && cfg.below(10) != 0) ++n;
        plan.params.push_back(n);
        unsigned w[OP_COUNT] = {6, 8, 10, 4, 3, 2, 3, 3, 1};
        if (cfg.below(3) == 0) for (unsigned i = 0; i < OP_COUNT; ++i) if (cfg.below(4) == 0) w[i] = 0;
        unsigned total = 0;
        for (unsigned i = 0; i < OP_COUNT; ++i) total += w[i];
        if (!total) { w[OP_write] = 1; total = 1; }
        for (size_t i = 0; i < n; ++i)
        {
            Step s;
            uint64_t pick = pr.below(total);
            for (unsigned o = 0; o < OP_COUNT; ++o) { if (pick < w[o]) { s.op = static_cast<int>(o); break; } pick -= w[o]; }
            s.actor = static_cast<int>(pr.below(2));
            s.a = pr.next() >> 40; s.b = pr.next() >> 40; s.c = pr.next() >> 40; s.d = pr.next() >> 44;
            plan.steps.push_back(s);
        }
    }

    // throwing-element configurations: an injected throw at the k-th element construction/assignment of a construct or resize step
    void gen_throwing(Plan& plan, Rng& cfg, Rng& pr, int tier)
    {
        gen(plan, cfg, pr, tier);
        unsigned pct = 20 + 20 * static_cast<unsigned>(cfg.below(3));
        for (Step& s : plan.steps)
            if ((s.op == OP_resize || s.op == OP_construct || s.op == OP_write) && pr.below(100) < pct)
            {
                s.fkind = FK_THROW;
                s.fk = pr.below(3) == 0 ? pr.below(3) : pr.below(45);
            }
    }

    template <class W> void exec(const Plan& plan, Run& run)
    {
        {
            std::unique_ptr<W> w(new W(run, plan));
            w->run_all();
        }
        if (throwing_elements && !registry().live.empty())
            fail("lifetime", "C11/lifetime/leak/teardown", std::to_string(registry().live.size()) + " element objects were never destroyed");
    }

#define SQ_STR2(x) #x
#define SQ_STR(x) SQ_STR2(x)
#ifdef SQ_THROWING
#define SQ_CFG(name, ...) RegisterCfg reg_##name(std::string(family_name) + "_" #name "_throwing_elements", gen_throwing, exec<__VA_ARGS__>, 1, false)
#elif defined(SQ_FLAG_BLOCK)
#define SQ_CFG(name, ...) RegisterCfg reg_##name(std::string(family_name) + "_" #name "_" SQ_STR(SQ_T) "_flags_in_" SQ_STR(SQ_FLAG_BLOCK), gen, exec<__VA_ARGS__>, 1, false)
#else
#define SQ_CFG(name, ...) RegisterCfg reg_##name(std::string(family_name) + "_" #name "_" SQ_STR(SQ_T), gen, exec<__VA_ARGS__>, 1, false)
#endif
    SQ_CFG(vector, World<Vec, 0>);
    SQ_CFG(array1, World<Arr<1>, 1>);
    SQ_CFG(array4, World<Arr<4>, 4>);
    SQ_CFG(array9, World<Arr<9>, 9>);
}
