// harness `any` — C06: xtl::any keeps, copies and returns exactly what was stored; exact-type casts;
// lifetimes balance; a throwing copy during assignment leaves the target unchanged.
#define SIMKIT_MAIN
#include "../../sim/simkit.hpp"

#include <memory>
#include <vector>
#include <initializer_list>
#include <string>
#include <typeinfo>

#include "xtl/xany.hpp"

#define ANY_OPS(X) \
    X(construct) X(copy_assign) X(move_assign) X(value_assign) X(swap) X(reset) X(cast_ptr) X(cast_ref) X(cast_value) X(cast_move) \
    X(mutate_copy) X(moved_from_use)

namespace aops
{
#define X(n) OP_##n,
    enum Op { ANY_OPS(X) OP_COUNT };
#undef X
}

namespace sim
{
    const char* const harness_name = "any";
    const bool caller_threads_enabled = true;
#define X(n) #n,
    const char* const op_names[] = {ANY_OPS(X)};
#undef X
    const int op_count = aops::OP_COUNT;
    const char* const fault_names[] = {"none", "throw", "alloc", "stream", "syscall", nullptr};
    bool workload_admits(const std::string&, const std::string&) { return true; }
    int enumerate_kind() { return FK_THROW; }
}

// Allocation seam: the k-th fault point of a step may be an allocation made by xtl::any.
// Harness code runs with faults suspended, so only xtl's own `new` can fail.
static unsigned long long g_news = 0;
void* operator new(std::size_t n)
{
    if (sim::fault_hit(sim::FK_THROW)) { sim::stats().add("c06.allocation_failures_delivered"); throw std::bad_alloc(); }
    ++g_news;
    void* p = std::malloc(n ? n : 1);
    if (!p) throw std::bad_alloc();
    return p;
}
void operator delete(void* p) noexcept { std::free(p); }
void operator delete(void* p, std::size_t) noexcept { std::free(p); }

namespace
{
    using namespace sim;
    using namespace aops;

    using S1 = Tracked<11, 1, true, true, 8>;     // in place, copy may throw
    using S2 = Tracked<12, 1, true, false, 8>;    // in place, nothing throws
    using LG = Tracked<13, 40, true, true, 8>;    // too large: heap
    using TMV = Tracked<14, 1, false, true, 8>;   // small but throwing move: heap
    using AL = Tracked<15, 1, true, true, 16>;    // over-aligned for the two-word buffer: heap
    using SP = std::shared_ptr<int>;
    // A reference-like payload (as a tuple of references or vector<bool>::reference is): copying it rebinds, assigning
    // to it WRITES THROUGH to the cell it designates.  Small and nothrow-movable, so it is stored in place.  A container
    // must move and copy it with its constructors; running its assignment operator overwrites the caller's cells.
    constexpr int NCELLS = 6;
    int g_cells[NCELLS];
    inline int cell_value(int i) { return 7000 + i; }
    struct RL
    {
        int* p;
        explicit RL(int* q) noexcept : p(q) {}
        RL(const RL& o) noexcept : p(o.p) {}
        RL(RL&& o) noexcept : p(o.p) {}
        RL& operator=(const RL& o) noexcept { *p = *o.p; return *this; }
        RL& operator=(RL&& o) noexcept { *p = *o.p; return *this; }
    };
    // A heap-stored payload with an additional copy constructor from a non-const lvalue (counted).  xtl::any copies
    // its content out of a `const any&`, so that overload must never be chosen by a copy of an any.
    uint64_t g_nonconst_copies = 0;
    struct NK : Tracked<19, 40, true, true, 8>
    {
        using Base = Tracked<19, 40, true, true, 8>;
        explicit NK(uint64_t v) : Base(v) {}
        NK(const NK& o) : Base(static_cast<const Base&>(o)) {}
        NK(NK& o) : Base(static_cast<const Base&>(o)) { ++g_nonconst_copies; }
        NK(NK&& o) noexcept : Base(static_cast<Base&&>(o)) {}
        NK& operator=(const NK&) = default;
        NK& operator=(NK&&) = default;
    };
    // the reference-like payload again, but too large for the in-place buffer
    struct RLH
    {
        int* p; unsigned char pad[24];
        explicit RLH(int* q) noexcept : p(q), pad{} {}
        RLH(const RLH& o) noexcept : p(o.p), pad{} {}
        RLH(RLH&& o) noexcept : p(o.p), pad{} {}
        RLH& operator=(const RLH& o) noexcept { *p = *o.p; return *this; }
        RLH& operator=(RLH&& o) noexcept { *p = *o.p; return *this; }
    };
    // a tree-like payload with an initializer_list constructor: copying it with braces would wrap the source in a new node
    struct Node
    {
        uint64_t id;
        std::vector<Node> kids;
        explicit Node(uint64_t v) : id(v) {}
        Node(std::initializer_list<Node> l) : id(777777), kids(l) {}
    };
    // a payload whose (memberwise) assignment is not all-or-nothing: the second part's assignment can throw after the first
    // part was assigned.  A container that keeps the strong guarantee never assigns payloads, it constructs and swaps.
    struct Part
    {
        uint64_t v;
        explicit Part(uint64_t x) : v(x) {}
        Part(const Part& o) : v(o.v) { fault_point(FK_THROW); }
        Part& operator=(const Part& o) { fault_point(FK_THROW); v = o.v; return *this; }
    };
    struct TwoPart
    {
        Part a, b; unsigned char pad[16];
        explicit TwoPart(uint64_t id) : a(id), b(id), pad{} {}
    };
    using IP = const int*;     // a plain pointer payload (what an array or a function would decay to)
    // a payload that itself holds an any (a list node): assigning a node's successor to the any that holds the node reads
    // from inside the object the assignment is about to replace
    struct Nest
    {
        uint64_t id;
        xtl::any next;
        unsigned char pad[8];
        explicit Nest(uint64_t v);
    };
    // 20 bytes, alignment 4: more than the two-word buffer although it is "two words and a bit"
    struct B20 { uint32_t w[5]; };
    // small, move ASSIGNMENT cannot throw but move CONSTRUCTION can: not for the in-place buffer (any's own moves are noexcept)
    struct MC : Tracked<26, 1, false, true, 8>
    {
        using Base = Tracked<26, 1, false, true, 8>;
        explicit MC(uint64_t v) : Base(v) {}
        MC(const MC& o) : Base(static_cast<const Base&>(o)) {}
        MC(MC&& o) noexcept(false) : Base(static_cast<Base&&>(o)) {}
        MC& operator=(const MC&) = default;
        MC& operator=(MC&& o) noexcept { id = o.id; return *this; }
    };
    static_assert(std::is_nothrow_move_assignable<MC>::value && !std::is_nothrow_move_constructible<MC>::value, "MC: nothrow move assignment, throwing move construction");
    // small, COPY construction cannot throw but move construction can: the heap again - what decides is the move, which any's
    // own noexcept moves would run
    struct CM : Tracked<27, 1, false, false, 8>
    {
        using Base = Tracked<27, 1, false, false, 8>;
        explicit CM(uint64_t v) : Base(v) {}
        CM(const CM& o) noexcept : Base(static_cast<const Base&>(o)) {}
        CM(CM&& o) noexcept(false) : Base(static_cast<Base&&>(o)) {}
        CM& operator=(const CM&) = default;
        CM& operator=(CM&&) = default;
    };
    static_assert(std::is_nothrow_copy_constructible<CM>::value && !std::is_nothrow_move_constructible<CM>::value, "CM: nothrow copy, throwing move construction");
    // small, in place, and its unary & hands out another object: any has to find its content without asking the content
    struct AMPI
    {
        uint64_t id;
        explicit AMPI(uint64_t v) : id(v) {}
        static AMPI& decoy() { static AMPI d(0xdec0dec0); return d; }
        AMPI* operator&() { return std::addressof(decoy()); }
        const AMPI* operator&() const { return std::addressof(decoy()); }
    };
    static_assert(sizeof(AMPI) <= 2 * sizeof(void*) && std::is_nothrow_move_constructible<AMPI>::value, "AMPI must be stored in place");
    // in place, trivially destructible, but NOT relocatable: it knows its own address.  Copying its bytes instead of running
    // its move constructor leaves an object that points at where it used to be.
    struct SELFP
    {
        const SELFP* self;
        uint64_t id;
        explicit SELFP(uint64_t v) : self(this), id(v) {}
        SELFP(const SELFP& o) noexcept : self(this), id(o.id) {}
        SELFP& operator=(const SELFP& o) noexcept { id = o.id; return *this; }
    };
    static_assert(sizeof(SELFP) <= 2 * sizeof(void*) && std::is_nothrow_move_constructible<SELFP>::value && std::is_trivially_destructible<SELFP>::value, "SELFP: in place, trivially destructible");
    // on the heap, with its OWN operator new / operator delete: every block its operator delete sees has to come from its
    // operator new (and the other way round), whichever internal path created the object
    struct OWNNEW
    {
        uint64_t id;
        unsigned char pad[40];
        explicit OWNNEW(uint64_t v) : id(v), pad{} {}
        static void** blocks() { static void* b[256]; return b; }
        static void* operator new(std::size_t n)
        {
            void* p = std::malloc(n);
            if (!p) throw std::bad_alloc();
            void** b = blocks();
            for (int i = 0; i < 256; ++i) if (!b[i]) { b[i] = p; return p; }
            std::abort();
        }
        static void* operator new(std::size_t, void* where) noexcept { return where; }      // placement form stays available
        static void operator delete(void*, void*) noexcept {}
        static void operator delete(void* p) noexcept
        {
            if (!p) return;
            void** b = blocks();
            for (int i = 0; i < 256; ++i) if (b[i] == p) { b[i] = nullptr; std::free(p); return; }
            { Suspend s; defer("lifetime", "C06/lifetime/foreign-block-in-class-operator-delete", "the payload's own operator delete was handed a block that its own operator new did not allocate"); }
            ::operator delete(p);
        }
        static int live_blocks() { int n = 0; void** b = blocks(); for (int i = 0; i < 256; ++i) if (b[i]) ++n; return n; }
    };
    static_assert(sizeof(OWNNEW) > 2 * sizeof(void*), "OWNNEW must not fit the in-place buffer");
    constexpr int NT = 21;
    const char* const tnames[NT] = {"int", "S1_inplace", "S2_inplace", "LG_heap", "TMV_heap", "AL_heap", "string_heap", "shared_ptr_inplace", "reflike_inplace", "NK_heap",
                                    "reflike_heap", "node_heap", "twopart_heap", "int_pointer_inplace", "nest_heap", "bytes20_heap", "MC_heap", "CM_heap", "ampersand_inplace", "selfpointer_inplace", "own_operator_new_heap"};
    inline bool is_tracked_type(int k) { return (k >= 1 && k <= 5) || k == 9 || k == 16 || k == 17; }
    static_assert(sizeof(RLH) > 2 * sizeof(void*) && sizeof(Node) > 2 * sizeof(void*) && sizeof(TwoPart) > 2 * sizeof(void*), "heap payloads must not fit the in-place buffer");
    inline int tag_of_type(int k) { return 10 + k; }
    static_assert(sizeof(RL) <= 2 * sizeof(void*) && std::is_nothrow_move_constructible<RL>::value, "RL must be stored in place");
    static_assert(sizeof(S1) <= 2 * sizeof(void*), "S1 must fit the in-place buffer");

    struct MA
    {
        bool empty = true;
        int type = -1;
        uint64_t id = 0;
        bool same(const MA& o) const { return empty == o.empty && (empty || (type == o.type && id == o.id)); }
    };
    std::string show(const MA& m) { return m.empty ? "empty" : std::string("(") + tnames[m.type] + ", " + std::to_string(m.id) + ")"; }
    std::string sstr(uint64_t id) { return "a-string-long-enough-for-the-heap-" + std::to_string(id); }
    uint64_t sid(const std::string& s) { return s.size() > 34 ? std::strtoull(s.c_str() + 34, nullptr, 10) : 0; }

    inline Nest::Nest(uint64_t v) : id(v), next(sstr(v + 1)), pad{} {}
    static_assert(sizeof(Nest) > 2 * sizeof(void*), "Nest must not fit the in-place buffer");

    template <int K> struct TypeOf;
    template <> struct TypeOf<0> { using type = int; static int make(uint64_t id) { return static_cast<int>(id); } static uint64_t id(const int& v) { return static_cast<uint64_t>(v); } static void set(int& v, uint64_t id) { v = static_cast<int>(id); } };
    template <> struct TypeOf<1> { using type = S1; static S1 make(uint64_t id) { return S1(id); } static uint64_t id(const S1& v) { return v.id; } static void set(S1& v, uint64_t id) { v.id = id; } };
    template <> struct TypeOf<2> { using type = S2; static S2 make(uint64_t id) { return S2(id); } static uint64_t id(const S2& v) { return v.id; } static void set(S2& v, uint64_t id) { v.id = id; } };
    template <> struct TypeOf<3> { using type = LG; static LG make(uint64_t id) { return LG(id); } static uint64_t id(const LG& v) { return v.id; } static void set(LG& v, uint64_t id) { v.id = id; } };
    template <> struct TypeOf<4> { using type = TMV; static TMV make(uint64_t id) { return TMV(id); } static uint64_t id(const TMV& v) { return v.id; } static void set(TMV& v, uint64_t id) { v.id = id; } };
    template <> struct TypeOf<5> { using type = AL; static AL make(uint64_t id) { return AL(id); } static uint64_t id(const AL& v) { return v.id; } static void set(AL& v, uint64_t id) { v.id = id; } };
    template <> struct TypeOf<6> { using type = std::string; static std::string make(uint64_t id) { return sstr(id); } static uint64_t id(const std::string& v) { return sid(v); } static void set(std::string& v, uint64_t id) { v = sstr(id); } };
    template <> struct TypeOf<8> { using type = RL; static RL make(uint64_t id) { return RL(&g_cells[id % NCELLS]); } static uint64_t id(const RL& v) { return static_cast<uint64_t>(v.p - g_cells); } static void set(RL& v, uint64_t id) { v.p = &g_cells[id % NCELLS]; } };
    template <> struct TypeOf<10> { using type = RLH; static RLH make(uint64_t id) { return RLH(&g_cells[id % NCELLS]); } static uint64_t id(const RLH& v) { return static_cast<uint64_t>(v.p - g_cells); } static void set(RLH& v, uint64_t id) { v.p = &g_cells[id % NCELLS]; } };
    template <> struct TypeOf<11> { using type = Node; static Node make(uint64_t id) { return Node(id); } static uint64_t id(const Node& v) { return v.kids.empty() ? v.id : 888888; } static void set(Node& v, uint64_t id) { v.id = id; } };
    template <> struct TypeOf<12> { using type = TwoPart; static TwoPart make(uint64_t id) { return TwoPart(id); } static uint64_t id(const TwoPart& v) { return v.a.v == v.b.v ? v.a.v : 999999; } static void set(TwoPart& v, uint64_t id) { v.a.v = id; v.b.v = id; } };
    template <> struct TypeOf<13> { using type = IP; static IP make(uint64_t id) { return &g_cells[id % NCELLS]; } static uint64_t id(const IP& v) { return static_cast<uint64_t>(v - g_cells); } static void set(IP& v, uint64_t id) { v = &g_cells[id % NCELLS]; } };
    template <> struct TypeOf<14> { using type = Nest; static Nest make(uint64_t id) { return Nest(id); }
                                    static uint64_t id(const Nest& v) { const std::string* s = xtl::any_cast<std::string>(&v.next); return (s && sid(*s) == v.id + 1) ? v.id : 999997; }
                                    static void set(Nest& v, uint64_t id) { v.id = id; v.next = sstr(id + 1); } };
    template <> struct TypeOf<15> { using type = B20; static B20 make(uint64_t id) { B20 b; set(b, id); return b; }
                                    static uint64_t id(const B20& v) { uint64_t i = v.w[0] | (static_cast<uint64_t>(v.w[1]) << 32); return (v.w[2] == static_cast<uint32_t>(i * 3 + 1) && v.w[3] == static_cast<uint32_t>(~i) && v.w[4] == 0x5eedu) ? i : 999996; }
                                    static void set(B20& v, uint64_t id) { v.w[0] = static_cast<uint32_t>(id); v.w[1] = static_cast<uint32_t>(id >> 32); v.w[2] = static_cast<uint32_t>(id * 3 + 1); v.w[3] = static_cast<uint32_t>(~id); v.w[4] = 0x5eedu; } };
    template <> struct TypeOf<16> { using type = MC; static MC make(uint64_t id) { return MC(id); } static uint64_t id(const MC& v) { return v.id; } static void set(MC& v, uint64_t id) { v.id = id; } };
    template <> struct TypeOf<17> { using type = CM; static CM make(uint64_t id) { return CM(id); } static uint64_t id(const CM& v) { return v.id; } static void set(CM& v, uint64_t id) { v.id = id; } };
    template <> struct TypeOf<18> { using type = AMPI; static AMPI make(uint64_t id) { return AMPI(id); } static uint64_t id(const AMPI& v) { return v.id; } static void set(AMPI& v, uint64_t id) { v.id = id; } };
    template <> struct TypeOf<19> { using type = SELFP; static SELFP make(uint64_t id) { return SELFP(id); } static uint64_t id(const SELFP& v) { return v.self == std::addressof(v) ? v.id : 666666; } static void set(SELFP& v, uint64_t id) { v.id = id; } };
    template <> struct TypeOf<20> { using type = OWNNEW; static OWNNEW make(uint64_t id) { return OWNNEW(id); } static uint64_t id(const OWNNEW& v) { return v.id; } static void set(OWNNEW& v, uint64_t id) { v.id = id; } };
    template <> struct TypeOf<9> { using type = NK; static NK make(uint64_t id) { return NK(id); } static uint64_t id(const NK& v) { return v.id; } static void set(NK& v, uint64_t id) { v.id = id; } };
    template <> struct TypeOf<7> { using type = SP; static SP make(uint64_t id) { return std::make_shared<int>(static_cast<int>(id)); } static uint64_t id(const SP& v) { return v ? static_cast<uint64_t>(*v) : 0; } static void set(SP& v, uint64_t id) { v = std::make_shared<int>(static_cast<int>(id)); } };

    template <class F> void with_type(int k, F f)
    {
        switch (k)
        {
        case 0: f(std::integral_constant<int, 0>()); break;
        case 1: f(std::integral_constant<int, 1>()); break;
        case 2: f(std::integral_constant<int, 2>()); break;
        case 3: f(std::integral_constant<int, 3>()); break;
        case 4: f(std::integral_constant<int, 4>()); break;
        case 5: f(std::integral_constant<int, 5>()); break;
        case 6: f(std::integral_constant<int, 6>()); break;
        case 7: f(std::integral_constant<int, 7>()); break;
        case 8: f(std::integral_constant<int, 8>()); break;
        case 9: f(std::integral_constant<int, 9>()); break;
        case 10: f(std::integral_constant<int, 10>()); break;
        case 11: f(std::integral_constant<int, 11>()); break;
        case 12: f(std::integral_constant<int, 12>()); break;
        case 13: f(std::integral_constant<int, 13>()); break;
        case 14: f(std::integral_constant<int, 14>()); break;
        case 15: f(std::integral_constant<int, 15>()); break;
        case 16: f(std::integral_constant<int, 16>()); break;
        case 17: f(std::integral_constant<int, 17>()); break;
        case 18: f(std::integral_constant<int, 18>()); break;
        case 19: f(std::integral_constant<int, 19>()); break;
        default: f(std::integral_constant<int, 20>()); break;
        }
    }

    // the xtl call itself is the only code that runs with faults enabled
    struct Active
    {
        int saved;
        Active() : saved(fstate().suspend) { fstate().suspend = 0; }
        ~Active() { fstate().suspend = saved; }
    };

    struct World
    {
        Run& run;
        const Plan& plan;
        Rng env;
        Slot<xtl::any> slot[3];
        MA model[3];
        std::string tail;
        uint64_t next_id = 1000;

        World(Run& r, const Plan& p) : run(r), plan(p), env(stream(p.seed, TAG_ENV))
        {
            registry().reset(); for (int bi = 0; bi < 256; ++bi) OWNNEW::blocks()[bi] = nullptr;   // (blocks of an abandoned run are forgotten, not freed)
            registry().sigprefix = "C06";
            tail = "initial/-";
            for (int i = 0; i < NCELLS; ++i) g_cells[i] = cell_value(i);
            g_nonconst_copies = 0;
            for (int i = 0; i < 3; ++i)
            {
                slot[i].prepare(env, env.next());
                new (slot[i].ptr()) xtl::any();
                if (env.below(4) != 0)
                {
                    int k = static_cast<int>(env.below(NT));
                    uint64_t id = canon(k, fresh());
                    with_type(k, [&](auto K) { auto val = TypeOf<decltype(K)::value>::make(id); slot[i].get() = val; });
                    model[i].empty = false; model[i].type = k; model[i].id = id;
                }
            }
        }
        void teardown() { for (int i = 0; i < 3; ++i) { slot[i].get().~any(); slot[i].unguard(); } }
        [[noreturn]] void viol(const char* cls, const char* oracle, const std::string& msg) { fail(cls, std::string("C06/") + oracle + "/" + tail, msg); }
        void lifetimes() { try { raise_pending(); } catch (Violation& v) { v.sig += "/" + tail; throw; } }
        uint64_t fresh() { return next_id++; }
        static uint64_t canon(int k, uint64_t id) { return (k == 8 || k == 10 || k == 13) ? id % NCELLS : id; }    // a reference-like value is the cell it designates
        const char* mname(int i) const { return model[i].empty ? "empty" : tnames[model[i].type]; }

        struct Scope
        {
            std::string qual;
            StepScope sc;
            Suspend harness_code;     // everything but the xtl call runs without faults
            Scope(World& w, const Step& st, const char* family, const std::string& variant)
                : qual(variant + (st.fkind ? ",fault" : "")), sc(w.run, st, qual.c_str())
            {
                w.tail = std::string(family) + "/" + variant;
                uint64_t a = 0;
                for (int i = 0; i < 3; ++i) a = a * 9 + static_cast<uint64_t>(w.model[i].empty ? 8 : w.model[i].type);
                w.run.abstract(mix(strhash(family), strhash(variant.c_str()), a * 2 + (st.fkind ? 1 : 0)));
                w.run.dig(strhash(family) ^ strhash(variant.c_str()));
            }
        };

        // ---- observation ------------------------------------------------------------------------
        MA observe(const xtl::any& a, const std::string& who)
        {
            MA m;
            m.empty = !a.has_value();
            if (a.empty() != m.empty) viol("invariant", "has_value", who + "empty() and has_value() disagree");
            if (m.empty)
            {
                if (a.type() != typeid(void)) viol("invariant", "type", who + "empty any reports a type other than void");
            }
            int matches = 0;
            for (int k = 0; k < NT; ++k)
                with_type(k, [&](auto K) {
                    using T = typename TypeOf<decltype(K)::value>::type;
                    const T* p = xtl::any_cast<T>(&a);
                    bool is = !m.empty && a.type() == typeid(T);
                    if ((p != nullptr) != is) this->viol("invariant", "any_cast", who + "any_cast<" + tnames[decltype(K)::value] + ">(&a) " + (p ? "succeeded" : "failed") + " although type() says otherwise");
                    if (p) { ++matches; m.type = decltype(K)::value; m.id = TypeOf<decltype(K)::value>::id(*p); }
                    if (p && !placed(*p)) this->viol("lifetime", "relocated", who + "the contained object was not constructed where it now lives (bytes moved without a constructor)");
                });
            if (!m.empty && matches != 1) viol("invariant", "type", who + "a non-empty any matches " + std::to_string(matches) + " of the stored types");
            return m;
        }
        void check_slot(int i)
        {
            std::string who = "any " + std::to_string(i) + ": ";
            if (!slot[i].canaries_ok()) viol("containment", "canary", who + "memory around the object was overwritten");
            MA o = observe(slot[i].get(), who);
            if (!o.same(model[i])) viol("invariant", "state", who + "holds " + show(o) + ", expected " + show(model[i]));
            if (!o.empty && is_tracked_type(o.type))
            {
                const void* p = nullptr; int tag = tag_of_type(o.type);
                with_type(o.type, [&](auto K) { p = xtl::any_cast<typename TypeOf<decltype(K)::value>::type>(&slot[i].get()); });
                if (!registry().is_live(p, tag)) viol("lifetime", "contained-not-live", who + "the contained object is not a live object");
            }
            run.dig(o.empty ? 99 : static_cast<uint64_t>(o.type)); run.dig(o.id);
        }
        void check_all()
        {
            lifetimes();
            for (int i = 0; i < 3; ++i) check_slot(i);
            size_t expect = 0;
            for (int i = 0; i < 3; ++i) if (!model[i].empty && is_tracked_type(model[i].type)) ++expect;
            if (registry().live.size() != expect)
                viol("lifetime", "population", std::to_string(registry().live.size()) + " tracked objects are live, " + std::to_string(expect) + " are held (leak or lost object)");
            for (int i = 0; i < NCELLS; ++i)
                if (g_cells[i] != cell_value(i))
                    viol("model", "write-through", "cell " + std::to_string(i) + " designated by a reference-like payload was overwritten: the container ran the payload's assignment operator instead of constructing/destroying it");
        }
        // copying an any reads its content through a const any&: the payload's copy constructor from a non-const lvalue must not run
        void no_nonconst_copy(uint64_t before, const char* what)
        {
            if (g_nonconst_copies != before) viol("model", "const-dropped", std::string(what) + " copied the content through a non-const lvalue (the payload's T(T&) overload ran)");
        }

        // ---- operations -------------------------------------------------------------------------------
        void op_construct(const Step& st)
        {
            int t = st.actor % 3;
            static const char* const vn[] = {"default", "from_lvalue", "from_rvalue", "copy", "move", "from_const_rvalue_any"};
            unsigned v = static_cast<unsigned>(st.d % 6);
            int k = static_cast<int>(st.a % NT);
            int src = (t + 1 + static_cast<int>(st.c % 2)) % 3;
            std::string var = std::string(vn[v]) + "_" + ((v == 1 || v == 2) ? tnames[k] : (v >= 3 ? mname(src) : "-"));
            bool const_rvalue = v == 5;
            if (const_rvalue) v = 3;      // std::move of a const any is a copy
            Scope sc(*this, st, "construct", var);
            uint64_t id = canon(k, fresh());
            MA pre_src = model[src];
            uint64_t nc0 = g_nonconst_copies;
            slot[t].get().~any();
            slot[t].prepare(env, env.next());
            xtl::any* p = slot[t].ptr();
            MA want;
            bool threw = false;
            try
            {
                switch (v)
                {
                case 0: { Active a; new (p) xtl::any(); } break;
                case 1:
                    if (k == 13 && (st.b & 16))
                    {
                        // the source is an ARRAY lvalue: it decays, what is stored is a pointer to its first element (in place)
                        { Active a; new (p) xtl::any(static_cast<const int (&)[NCELLS]>(g_cells)); }      // const int[6] decays to const int* (= IP)
                        want.empty = false; want.type = 13; want.id = 0;
                        SIM_PROBE("constructed_from_an_array_lvalue");
                        break;
                    }
                    with_type(k, [&](auto K) { auto val = TypeOf<decltype(K)::value>::make(id); { Active a; new (p) xtl::any(val); } }); want.empty = false; want.type = k; want.id = id; break;
                case 2: with_type(k, [&](auto K) { auto val = TypeOf<decltype(K)::value>::make(id); { Active a; new (p) xtl::any(std::move(val)); } }); want.empty = false; want.type = k; want.id = id; break;
                case 3: { Active a; if (const_rvalue) new (p) xtl::any(std::move(static_cast<const xtl::any&>(slot[src].get())));
                          else if (st.b & 8) new (p) xtl::any(slot[src].get());          // a non-const lvalue any: the copy constructor, not the converting one
                          else new (p) xtl::any(static_cast<const xtl::any&>(slot[src].get())); } want = pre_src; break;
                default: { Active a; new (p) xtl::any(std::move(slot[src].get())); } want = pre_src; break;
                }
            }
            catch (const Injected&) { threw = true; }
            catch (const std::bad_alloc&) { threw = true; }
            if (threw)
            {
                if (!fstate().fired) viol("exception", "unexpected", "constructor threw without an injected fault");
                new (p) xtl::any();
                want = MA();
                SIM_PROBE("constructor_threw");
            }
            model[t] = want;
            if (v == 3) no_nonconst_copy(nc0, "copy construction of an any");
            if (v == 3) { MA o = observe(slot[src].get(), "copy source: "); if (!o.same(pre_src)) viol("model", "source-changed", "copy construction changed its source to " + show(o)); }
            if (v == 4) settle_moved_from(src, pre_src);
            ++run.changing;
            check_all();
        }
        // a moved-from any must stay valid to query; this implementation leaves it empty, any self-consistent state is accepted
        void settle_moved_from(int i, const MA& pre)
        {
            MA o = observe(slot[i].get(), "moved-from any: ");
            if (!o.empty && !(o.type == pre.type)) viol("model", "moved-from", "moved-from any holds " + show(o) + ", was " + show(pre));
            model[i] = o;
            SIM_PROBE("moved_from_observed");
        }

        void op_assign(const Step& st, bool move)
        {
            int t = st.actor % 3;
            int src = static_cast<int>(st.c % 3);
            // the target holds a node: every other time the source is the any INSIDE that node (a = std::move(node.next))
            bool inner = !model[t].empty && model[t].type == 14 && (st.b & 1);
            std::string var = std::string(mname(t)) + "_from_" + (inner ? "any_inside_own_content" : src == t ? "self" : mname(src));
            Scope sc(*this, st, move ? "move_assign" : "copy_assign", var);
            MA pre = model[t], pre_src = model[src];
            bool threw = false;
            uint64_t nc0 = g_nonconst_copies;
            try
            {
                xtl::any& from = inner ? xtl::any_cast<Nest&>(slot[t].get()).next : slot[src].get();
                Active a;
                if (move) slot[t].get() = std::move(from);
                else if (st.b & 8) slot[t].get() = from;                                  // non-const lvalue source
                else slot[t].get() = static_cast<const xtl::any&>(from);
            }
            catch (const Injected&) { threw = true; }
            catch (const std::bad_alloc&) { threw = true; }
            if (inner)
            {
                no_nonconst_copy(nc0, "assignment of an any");
                SIM_PROBE("assigned_from_any_inside_own_content");
                if (threw)
                {
                    if (!fstate().fired) viol("exception", "unexpected", "assignment threw without an injected fault");
                    if (move) viol("model", "noexcept", "move assignment threw");
                }
                else { model[t].type = 6; model[t].id = pre.id + 1; }      // what the node's successor held
                ++run.changing;
                check_all();
                return;
            }
            no_nonconst_copy(nc0, move ? "move assignment of an any" : "copy assignment of an any");
            if (src == t) SIM_PROBE(move ? "self_move_assignment" : "self_copy_assignment");
            if (threw)
            {
                if (!fstate().fired) viol("exception", "unexpected", "assignment threw without an injected fault");
                if (move) viol("model", "noexcept", "move assignment threw");
                // copy assignment failed: the target keeps its previous value, the source is unchanged
                if (!pre.empty) SIM_PROBE("assignment_fault_with_nonempty_target");
            }
            else if (src != t)
            {
                model[t] = pre_src;
                if (move) settle_moved_from(src, pre_src);
            }
            else if (move)
            {
                // self move assignment: unspecified but valid
                MA o = observe(slot[t].get(), "self-move: ");
                if (!o.empty && !o.same(pre)) viol("model", "self-move", "self move assignment left " + show(o) + ", was " + show(pre));
                model[t] = o;
            }
            ++run.changing;
            check_all();
        }

        void op_value_assign(const Step& st)
        {
            int t = st.actor % 3;
            int k = static_cast<int>(st.a % NT);
            bool rvalue = st.b & 1;
            // one in five: the assigned value is the any's own content (a = any_cast<T&>(a), a = std::move(any_cast<T&>(a)))
            bool own = !model[t].empty && (st.b >> 3) % 5 == 0;
            if (own) k = model[t].type;
            std::string var = std::string(mname(t)) + "_from_" + (own ? "own_content" : tnames[k]) + (rvalue ? "_rvalue" : "_lvalue");
            Scope sc(*this, st, "value_assign", var);
            MA pre = model[t];
            uint64_t id = own ? pre.id : canon(k, fresh());
            bool threw = false;
            with_type(k, [&](auto K) {
                using T = typename TypeOf<decltype(K)::value>::type;
                if (own)
                {
                    SIM_PROBE("value_assignment_from_own_content");
                    T& mine = xtl::any_cast<T&>(slot[t].get());
                    try { Active a; if (rvalue) slot[t].get() = std::move(mine); else slot[t].get() = mine; }
                    catch (const Injected&) { threw = true; }
                    catch (const std::bad_alloc&) { threw = true; }
                    return;
                }
                auto val = TypeOf<decltype(K)::value>::make(id);
                try { Active a; if (rvalue) slot[t].get() = std::move(val); else slot[t].get() = val; }
                catch (const Injected&) { threw = true; }
                catch (const std::bad_alloc&) { threw = true; }
            });
            if (threw)
            {
                if (!fstate().fired) viol("exception", "unexpected", "assignment threw without an injected fault");
                if (!pre.empty) SIM_PROBE("assignment_fault_with_nonempty_target");
            }
            else { model[t].empty = false; model[t].type = k; model[t].id = id; }
            ++run.changing;
            check_all();
        }

        void op_swap(const Step& st)
        {
            int t = st.actor % 3;
            int p = static_cast<int>(st.c % 3);
            bool free_fn = st.b & 1;
            bool inplace_t = !model[t].empty && (model[t].type <= 2 || model[t].type == 7 || model[t].type == 8 || model[t].type == 13);
            std::string var = std::string(free_fn ? "std_" : "member_") + (p == t ? std::string("self_") + mname(t) : std::string(mname(t)) + "_" + mname(p));
            Scope sc(*this, st, "swap", var);
            MA a = model[t], b = model[p];
            try
            {
                Active act;
                if (free_fn) std::swap(slot[t].get(), slot[p].get()); else slot[t].get().swap(slot[p].get());
            }
            catch (...) { viol("model", "noexcept", "swap threw"); }
            if (p == t) { if (model[t].empty) SIM_PROBE("self_swap_empty"); else if (inplace_t) SIM_PROBE("self_swap_in_place"); else SIM_PROBE("self_swap_heap"); }
            else
            {
                model[t] = b; model[p] = a;
                bool ia = !a.empty && (a.type <= 2 || a.type == 7 || a.type == 8 || a.type == 13), ib = !b.empty && (b.type <= 2 || b.type == 7 || b.type == 8 || b.type == 13);
                if (!a.empty && !b.empty && ia != ib) SIM_PROBE("swap_in_place_with_heap");
                if (!a.empty && !b.empty && a.type == b.type) SIM_PROBE(ia ? "swap_same_type_in_place" : "swap_same_type_heap");
                if (a.empty != b.empty) SIM_PROBE("swap_empty_with_nonempty");
            }
            ++run.changing;
            check_all();
        }

        void op_reset(const Step& st)
        {
            int t = st.actor % 3;
            bool use_clear = st.b & 1;
            Scope sc(*this, st, "reset", std::string(use_clear ? "clear_" : "reset_") + mname(t));
            { Active a; if (use_clear) slot[t].get().clear(); else slot[t].get().reset(); }
            model[t] = MA();
            ++run.changing;
            check_all();
        }

        // casts with the stored type, cv/ref-qualified forms of it, and another type
        void op_cast(const Step& st, int form)
        {
            int t = st.actor % 3;
            static const char* const fn[] = {"cast_ptr", "cast_ref", "cast_value", "cast_move"};
            bool same = !model[t].empty && (st.b % 3 != 0);
            int k = same ? model[t].type : static_cast<int>(st.a % NT);
            if (!model[t].empty && k == model[t].type) same = true;
            unsigned qual = static_cast<unsigned>(st.d % 5);   // 0 plain, 1 const, 2 (ref forms) const ref through a non-const any, 3 volatile, 4 const volatile (pointer form only)
            if (form != 0 && qual >= 3) qual -= 2;
            std::string var = std::string(same ? "stored_type_" : "other_type_") + tnames[k] + (qual >= 3 ? (qual == 3 ? "_volatile" : "_const_volatile") : (qual ? "_const" : "")) + (model[t].empty ? "_on_empty" : "");
            Scope sc(*this, st, fn[form], var);
            xtl::any& a = slot[t].get();
            const xtl::any& ca = a;
            bool ok = false, bad = false;
            uint64_t got = 0;
            bool addr_ok = true;
            with_type(k, [&](auto K) {
                constexpr int KK = decltype(K)::value;
                using T = typename TypeOf<KK>::type;
                const T* stored = xtl::any_cast<T>(&ca);
                try
                {
                    Active act;
                    switch (form)
                    {
                    case 0:
                        if (qual == 0) { T* p = xtl::any_cast<T>(&a); ok = p != nullptr; if (p) { got = TypeOf<KK>::id(*p); addr_ok = p == stored; } }
                        else if (qual == 3) { volatile T* p = xtl::any_cast<volatile T>(&a); ok = p != nullptr; if (p) { addr_ok = const_cast<const T*>(p) == stored; if (addr_ok) got = TypeOf<KK>::id(*stored); } }
                        else if (qual == 4) { const volatile T* p = xtl::any_cast<const volatile T>(&ca); ok = p != nullptr; if (p) { addr_ok = const_cast<const T*>(p) == stored; if (addr_ok) got = TypeOf<KK>::id(*stored); } }
                        else { const T* p = xtl::any_cast<const T>(&ca); ok = p != nullptr; if (p) { got = TypeOf<KK>::id(*p); addr_ok = p == stored; } }
                        break;
                    case 1:
                        if (qual == 0) { T& r = xtl::any_cast<T&>(a); ok = true; got = TypeOf<KK>::id(r); addr_ok = std::addressof(r) == stored; }
                        else if (qual == 1) { const T& r = xtl::any_cast<const T&>(ca); ok = true; got = TypeOf<KK>::id(r); addr_ok = std::addressof(r) == stored; }
                        else { const T& r = xtl::any_cast<const T&>(a); ok = true; got = TypeOf<KK>::id(r); addr_ok = std::addressof(r) == stored; }
                        break;
                    case 2:
                        { Suspend quiet; if (qual == 0) { T v = xtl::any_cast<T>(a); ok = true; got = TypeOf<KK>::id(v); } else { T v = xtl::any_cast<T>(ca); ok = true; got = TypeOf<KK>::id(v); } }
                        break;
                    default:
                        { Suspend quiet; T v = xtl::any_cast<T>(std::move(a)); ok = true; got = TypeOf<KK>::id(v); }
                        break;
                    }
                }
                catch (const xtl::bad_any_cast&) { bad = true; }
            });
            bool should = !model[t].empty && k == model[t].type;
            if (form == 0) { if (ok != should) viol("model", "cast", std::string("pointer any_cast<") + tnames[k] + "> " + (ok ? "succeeded" : "returned nullptr") + " on " + show(model[t])); }
            else
            {
                if (should && (bad || !ok)) viol("model", "cast", std::string("any_cast<") + tnames[k] + "> threw bad_any_cast on " + show(model[t]));
                if (!should && !bad) viol("model", "cast", std::string("any_cast<") + tnames[k] + "> did not throw bad_any_cast on " + show(model[t]));
            }
            if (ok && should && got != model[t].id) viol("model", "cast", "any_cast returned value " + std::to_string(got) + ", stored " + show(model[t]));
            if (!addr_ok) viol("model", "cast", "any_cast does not designate the stored object");
            {
                // array and function types decay to pointers, but an any never holds an array or a function: such a cast target
                // matches nothing, whatever pointer the any holds
                const int (*pa)[2] = xtl::any_cast<const int[2]>(&ca);
                int (*pb)[3] = xtl::any_cast<int[3]>(&a);
                if (pa != nullptr || pb != nullptr) viol("model", "cast", std::string("pointer any_cast with an array type succeeded on ") + show(model[t]));
                if (!model[t].empty && model[t].type == 13) SIM_PROBE("array_cast_on_pointer_payload");
            }
            if (qual) SIM_PROBE("cast_with_cv_qualified_type");
            if (!should && !model[t].empty) SIM_PROBE("cast_with_other_type");
            if (form == 3 && should)
            {
                // the value was moved out: the any still holds an object of that type (moved-from)
                MA o = observe(a, "after any_cast(any&&): ");
                if (o.empty || o.type != model[t].type) viol("model", "cast", "any_cast<T>(std::move(a)) changed what the any holds to " + show(o));
                model[t] = o;
                ++run.changing;
            }
            check_all();
        }

        // copies are independent of their source
        void op_mutate_copy(const Step& st)
        {
            int t = st.actor % 3;
            int c = (t + 1 + static_cast<int>(st.c % 2)) % 3;
            Scope sc(*this, st, "mutate_copy", mname(t));
            if (model[t].empty) { stats().add("skipped.mutate_copy_of_empty"); check_all(); return; }
            uint64_t nc0 = g_nonconst_copies;
            slot[c].get() = static_cast<const xtl::any&>(slot[t].get());
            no_nonconst_copy(nc0, "copy assignment of an any");
            model[c] = model[t];
            uint64_t id = canon(model[t].type, fresh());
            if ((model[t].type == 8 || model[t].type == 10 || model[t].type == 13) && id == model[t].id) id = (id + 1) % NCELLS;
            with_type(model[t].type, [&](auto K) {
                using T = typename TypeOf<decltype(K)::value>::type;
                T& r = xtl::any_cast<T&>(slot[c].get());
                TypeOf<decltype(K)::value>::set(r, id);
            });
            model[c].id = id;
            if (is_tracked_type(model[c].type))
            {
                const void* p = nullptr;
                with_type(model[c].type, [&](auto K) { p = xtl::any_cast<typename TypeOf<decltype(K)::value>::type>(&slot[c].get()); });
                registry().set(p, id, false);
            }
            SIM_PROBE("copy_mutated_independently");
            ++run.changing;
            check_all();
        }

        void op_moved_from_use(const Step& st)
        {
            int t = st.actor % 3;
            int d = (t + 1 + static_cast<int>(st.c % 2)) % 3;
            unsigned v = static_cast<unsigned>(st.d % 3);
            static const char* const vn[] = {"query", "assign", "destroy"};
            Scope sc(*this, st, "moved_from_use", std::string(vn[v]) + "_" + mname(t));
            MA pre = model[t];
            { Active a; slot[d].get() = std::move(slot[t].get()); }
            model[d] = pre;
            settle_moved_from(t, pre);
            if (v == 1)
            {
                int k = static_cast<int>(st.a % NT);
                uint64_t id = canon(k, fresh());
                with_type(k, [&](auto K) { auto val = TypeOf<decltype(K)::value>::make(id); slot[t].get() = val; });
                model[t].empty = false; model[t].type = k; model[t].id = id;
            }
            else if (v == 2)
            {
                slot[t].get().~any();
                slot[t].prepare(env, env.next());
                new (slot[t].ptr()) xtl::any();
                model[t] = MA();
            }
            SIM_PROBE("moved_from_object_reused");
            ++run.changing;
            check_all();
        }

        void step(const Step& st)
        {
            switch (st.op)
            {
            case OP_construct: op_construct(st); break;
            case OP_copy_assign: op_assign(st, false); break;
            case OP_move_assign: op_assign(st, true); break;
            case OP_value_assign: op_value_assign(st); break;
            case OP_swap: op_swap(st); break;
            case OP_reset: op_reset(st); break;
            case OP_cast_ptr: op_cast(st, 0); break;
            case OP_cast_ref: op_cast(st, 1); break;
            case OP_cast_value: op_cast(st, 2); break;
            case OP_cast_move: op_cast(st, 3); break;
            case OP_mutate_copy: op_mutate_copy(st); break;
            case OP_moved_from_use: op_moved_from_use(st); break;
            default: { StepScope sc(run, st, "noop"); } break;
            }
        }
        void run_all()
        {
            { Suspend s; check_all(); }
            for (const Step& st : plan.steps) as_caller(run, st, [&] { step(st); });
            Suspend s;
            tail = "teardown/-";
            teardown();
            lifetimes();
            if (!registry().live.empty()) viol("lifetime", "leak", std::to_string(registry().live.size()) + " contained objects were never destroyed");
            if (registry().constructed != registry().destroyed) viol("lifetime", "balance", "constructions and destructions do not balance");
        }
    };

    void gen(Plan& plan, Rng& cfg, Rng& pr, int)
    {
        size_t n = 1;
        while (n < 15 && cfg.below(6) != 0) ++n;
        plan.params.push_back(n);
        unsigned fault_pct = static_cast<unsigned>(cfg.below(4)) * 15;
        plan.params.push_back(fault_pct);
        unsigned w[OP_COUNT];
        for (unsigned i = 0; i < OP_COUNT; ++i) w[i] = 4;
        w[OP_construct] = 8; w[OP_copy_assign] = 8; w[OP_value_assign] = 8; w[OP_swap] = 8; w[OP_move_assign] = 6; w[OP_reset] = 2;
        if (cfg.below(3) == 0)
            for (unsigned i = 0; i < OP_COUNT; ++i) if (cfg.below(4) == 0) w[i] = 0;
        unsigned total = 0;
        for (unsigned i = 0; i < OP_COUNT; ++i) total += w[i];
        if (!total) { w[OP_swap] = 1; total = 1; }
        for (size_t i = 0; i < n; ++i)
        {
            Step s;
            uint64_t pick = pr.below(total);
            for (unsigned o = 0; o < OP_COUNT; ++o) { if (pick < w[o]) { s.op = static_cast<int>(o); break; } pick -= w[o]; }
            s.actor = static_cast<int>(pr.below(3));
            s.a = pr.next() >> 40; s.b = pr.next() >> 40; s.c = pr.next() >> 40; s.d = pr.next() >> 44;
            bool can_throw = s.op == OP_construct || s.op == OP_copy_assign || s.op == OP_value_assign;
            if (can_throw && pr.below(100) < fault_pct) { s.fkind = FK_THROW; s.fk = pr.below(2); }
            plan.steps.push_back(s);
        }
    }

    void exec(const Plan& plan, Run& run)
    {
        Suspend outer;
        std::unique_ptr<World> w(new World(run, plan));
        try { w->run_all(); }
        catch (...) { clear_pending(); try { w->teardown(); } catch (...) {} clear_pending(); throw; }
    }

    RegisterCfg reg("int_S1_S2_LG_TMV_AL_string_sharedptr_reflike_NK_reflikeheap_node_twopart_intptr", gen, exec, 1, false);
}
