// harness `variant` — C05: xtl::variant holds one live alternative or is valueless; lifetimes balance,
// also when an element's constructor or assignment throws at any point.
#define SIMKIT_MAIN
#include "../../sim/simkit.hpp"

#include <limits>
#include <string>
#include <tuple>

namespace vt
{
    using NC = sim::Tracked<1, 8, true, false>;    // nothrow move, nothrow copy
    using TC = sim::Tracked<2, 8, true, true>;     // nothrow move, throwing copy
    using TM = sim::Tracked<3, 24, false, true>;   // throwing move, throwing copy
    using TM2 = sim::Tracked<4, 16, false, true>;  // a second type with a throwing move (swap can then go valueless)
}
namespace std
{
    template <> struct hash<vt::NC> { size_t operator()(const vt::NC& t) const { return std::hash<uint64_t>()(t.id) ^ 0x11; } };
    template <> struct hash<vt::TC> { size_t operator()(const vt::TC& t) const { return std::hash<uint64_t>()(t.id) ^ 0x22; } };
    template <> struct hash<vt::TM> { size_t operator()(const vt::TM& t) const { return std::hash<uint64_t>()(t.id) ^ 0x33; } };
    template <> struct hash<vt::TM2> { size_t operator()(const vt::TM2& t) const { return std::hash<uint64_t>()(t.id) ^ 0x44; } };
}

namespace vt
{
    // Lifetime-registered (constructors and destructor report to the registry, constructors pass a fault point) but with
    // DEFAULTED copy/move assignment: every alternative of variant<int, DA, DB> is trivially copy-assignable while copy
    // construction and destruction are not trivial.  (Not a sim::Tracked: its relocation tag must not be assigned bytewise.)
    template <int Tag, bool NothrowMove>
    struct Reg
    {
        static constexpr int tag = Tag;
        uint64_t id;
        explicit Reg(uint64_t v) : id(v) { sim::fault_point(sim::FK_THROW); sim::registry().on_construct(this, Tag, id, false); }
        Reg(const Reg& o) : id(o.id) { sim::registry().use(&o, Tag, "copy construction from"); sim::fault_point(sim::FK_THROW); sim::registry().on_construct(this, Tag, id, false); ++sim::registry().copies; }
        Reg(Reg&& o) noexcept(NothrowMove) : id(o.id) { sim::registry().use(&o, Tag, "move construction from"); if (!NothrowMove) sim::fault_point(sim::FK_THROW); sim::registry().on_construct(this, Tag, id, false); ++sim::registry().moves; }
        Reg& operator=(const Reg&) = default;
        Reg& operator=(Reg&&) = default;
        ~Reg() { sim::registry().on_destroy(this, Tag); }
        friend bool operator==(const Reg& a, const Reg& b) { return a.id == b.id; }
        friend bool operator!=(const Reg& a, const Reg& b) { return a.id != b.id; }
        friend bool operator<(const Reg& a, const Reg& b) { return a.id < b.id; }
        friend bool operator>(const Reg& a, const Reg& b) { return a.id > b.id; }
        friend bool operator<=(const Reg& a, const Reg& b) { return a.id <= b.id; }
        friend bool operator>=(const Reg& a, const Reg& b) { return a.id >= b.id; }
    };
    using DA = Reg<5, true>;
    using DB = Reg<6, false>;
    // Trivially destructible, constructors can throw (after having written the member): with int and double it forms a
    // variant all of whose alternatives are trivially destructible.
    struct TT
    {
        uint64_t id;
        explicit TT(uint64_t v) : id(v) { sim::fault_point(sim::FK_THROW); }
        TT(const TT& o) : id(o.id) { sim::fault_point(sim::FK_THROW); }
        TT(TT&& o) : id(o.id) { sim::fault_point(sim::FK_THROW); }
        TT& operator=(const TT&) = default;
        TT& operator=(TT&&) = default;
        friend bool operator==(const TT& a, const TT& b) { return a.id == b.id; }
        friend bool operator!=(const TT& a, const TT& b) { return a.id != b.id; }
        friend bool operator<(const TT& a, const TT& b) { return a.id < b.id; }
        friend bool operator>(const TT& a, const TT& b) { return a.id > b.id; }
        friend bool operator<=(const TT& a, const TT& b) { return a.id <= b.id; }
        friend bool operator>=(const TT& a, const TT& b) { return a.id >= b.id; }
    };
    // An argument type and an alternative that is assignable from it without throwing but whose construction from it throws.
    struct Arg { uint64_t id; bool consumed = false; };
    struct NA
    {
        uint64_t id;
        explicit NA(uint64_t v) : id(v) { sim::fault_point(sim::FK_THROW); sim::registry().on_construct(this, 7, id, false); }
        NA(const Arg& a) : id(a.id) { sim::fault_point(sim::FK_THROW); sim::registry().on_construct(this, 7, id, false); }
        NA(Arg&& a) : id(a.id) { sim::fault_point(sim::FK_THROW); sim::registry().on_construct(this, 7, id, false); a.consumed = true; }     // (may throw, like the lvalue form)
        NA(const NA& o) : id(o.id) { sim::fault_point(sim::FK_THROW); sim::registry().on_construct(this, 7, id, false); }
        NA(NA&& o) noexcept : id(o.id) { sim::registry().on_construct(this, 7, id, false); }
        NA& operator=(const Arg& a) noexcept { id = a.id; return *this; }
        NA& operator=(const NA&) = default;
        NA& operator=(NA&&) = default;
        ~NA() { sim::registry().on_destroy(this, 7); }
        friend bool operator==(const NA& a, const NA& b) { return a.id == b.id; }
        friend bool operator!=(const NA& a, const NA& b) { return a.id != b.id; }
        friend bool operator<(const NA& a, const NA& b) { return a.id < b.id; }
        friend bool operator>(const NA& a, const NA& b) { return a.id > b.id; }
        friend bool operator<=(const NA& a, const NA& b) { return a.id <= b.id; }
        friend bool operator>=(const NA& a, const NA& b) { return a.id >= b.id; }
    };
    // An argument that lives INSIDE the alternative a variant currently holds (HD::inner), and the alternative NB it converts
    // to: construction from it may throw, NB moves without throwing, NB's move ASSIGNMENT may throw.  `v = get<HD>(v).inner`
    // is a defined call (std::variant builds a temporary NB from the argument first, because NB is not nothrow-constructible
    // from it but nothrow-move-constructible, and only then destroys HD); a variant that destroys HD first reads a dead argument.
    // NB also has an initializer_list constructor next to a two-argument one: emplace<NB>(a, b) is direct-initialisation, NB(a, b).
    struct HArg
    {
        uint64_t id;
        explicit HArg(uint64_t v) : id(v) { sim::registry().on_construct(this, 10, id, false); }
        HArg(const HArg& o) : id(o.id) { sim::registry().use(&o, 10, "copy construction from"); sim::registry().on_construct(this, 10, id, false); }
        HArg& operator=(const HArg&) = default;
        ~HArg() { sim::registry().on_destroy(this, 10); }
    };
    struct NB
    {
        static constexpr uint64_t list_initialised = 0x11571157;
        uint64_t id;
        explicit NB(uint64_t v) : id(v) { sim::fault_point(sim::FK_THROW); sim::registry().on_construct(this, 11, id, false); }
        NB(uint64_t a, uint64_t b) : id(a + b) { sim::fault_point(sim::FK_THROW); sim::registry().on_construct(this, 11, id, false); }
        NB(std::initializer_list<uint64_t>) : id(list_initialised) { sim::registry().on_construct(this, 11, id, false); }
        // emplace<NB>({a}, std::move(arg)) has to forward: this overload consumes its argument, the const one copies
        NB(std::initializer_list<uint64_t> il, Arg&& a) : id(*il.begin() + a.id) { sim::registry().on_construct(this, 11, id, false); a.consumed = true; }
        NB(std::initializer_list<uint64_t> il, const Arg& a) : id(*il.begin() + a.id) { sim::registry().on_construct(this, 11, id, false); }
        NB(const HArg& a) : id(a.id) { sim::registry().use(&a, 10, "construction of the alternative from"); sim::fault_point(sim::FK_THROW); sim::registry().on_construct(this, 11, id, false); }
        NB(const NB& o) : id(o.id) { sim::fault_point(sim::FK_THROW); sim::registry().on_construct(this, 11, id, false); }
        NB(NB&& o) noexcept : id(o.id) { sim::registry().on_construct(this, 11, id, false); }
        NB& operator=(const HArg& a) { sim::registry().use(&a, 10, "assignment of the alternative from"); id = a.id; return *this; }
        NB& operator=(const NB&) = default;
        NB& operator=(NB&& o) noexcept(false) { id = o.id; return *this; }
        ~NB() { sim::registry().on_destroy(this, 11); }
        friend bool operator==(const NB& a, const NB& b) { return a.id == b.id; }
        friend bool operator!=(const NB& a, const NB& b) { return a.id != b.id; }
        friend bool operator<(const NB& a, const NB& b) { return a.id < b.id; }
        friend bool operator>(const NB& a, const NB& b) { return a.id > b.id; }
        friend bool operator<=(const NB& a, const NB& b) { return a.id <= b.id; }
        friend bool operator>=(const NB& a, const NB& b) { return a.id >= b.id; }
    };
    static_assert(std::is_nothrow_move_constructible<NB>::value && !std::is_nothrow_move_assignable<NB>::value && !std::is_nothrow_constructible<NB, const HArg&>::value, "NB's shape");
    struct HD
    {
        uint64_t id;
        HArg inner;
        explicit HD(uint64_t v) : id(v), inner(v) { sim::fault_point(sim::FK_THROW); sim::registry().on_construct(this, 6, id, false); }
        HD(const HD& o) : id(o.id), inner(o.inner) { sim::registry().use(&o, 6, "copy construction from"); sim::fault_point(sim::FK_THROW); sim::registry().on_construct(this, 6, id, false); }
        HD& operator=(const HD&) = default;
        ~HD() { sim::registry().on_destroy(this, 6); }
        friend bool operator==(const HD& a, const HD& b) { return a.id == b.id; }
        friend bool operator!=(const HD& a, const HD& b) { return a.id != b.id; }
        friend bool operator<(const HD& a, const HD& b) { return a.id < b.id; }
        friend bool operator>(const HD& a, const HD& b) { return a.id > b.id; }
        friend bool operator<=(const HD& a, const HD& b) { return a.id <= b.id; }
        friend bool operator>=(const HD& a, const HD& b) { return a.id >= b.id; }
    };
    // An alternative that is constructible and assignable from (almost) anything, as an any-like or a type-erasing wrapper
    // is - in particular from the variant that holds it.  What was swallowed that way is marked.
    struct GR
    {
        static constexpr uint64_t swallowed = 31337;
        uint64_t id;
        explicit GR(uint64_t v) : id(v) { sim::fault_point(sim::FK_THROW); sim::registry().on_construct(this, 8, id, false); }
        template <class U, class = typename std::enable_if<!std::is_same<typename std::decay<U>::type, GR>::value && !std::is_arithmetic<typename std::decay<U>::type>::value>::type>
        GR(U&&) : id(swallowed) { sim::registry().on_construct(this, 8, id, false); }
        GR(const GR& o) : id(o.id) { sim::fault_point(sim::FK_THROW); sim::registry().on_construct(this, 8, id, false); }
        GR(GR&& o) noexcept : id(o.id) { sim::registry().on_construct(this, 8, id, false); }
        template <class U, class = typename std::enable_if<!std::is_same<typename std::decay<U>::type, GR>::value && !std::is_arithmetic<typename std::decay<U>::type>::value>::type>
        GR& operator=(U&&) { id = swallowed; return *this; }
        GR& operator=(const GR&) = default;
        GR& operator=(GR&&) = default;
        ~GR() { sim::registry().on_destroy(this, 8); }
        friend bool operator==(const GR& a, const GR& b) { return a.id == b.id; }
        friend bool operator!=(const GR& a, const GR& b) { return a.id != b.id; }
        friend bool operator<(const GR& a, const GR& b) { return a.id < b.id; }
        friend bool operator>(const GR& a, const GR& b) { return a.id > b.id; }
        friend bool operator<=(const GR& a, const GR& b) { return a.id <= b.id; }
        friend bool operator>=(const GR& a, const GR& b) { return a.id >= b.id; }
    };
    // An alternative with its own (ADL) swap that can throw although its moves cannot - a swap written with copies.  Two
    // variants holding this alternative are swapped through it, and its exception has to come out of variant::swap.
    struct SW
    {
        uint64_t id;
        explicit SW(uint64_t v) : id(v) { sim::fault_point(sim::FK_THROW); sim::registry().on_construct(this, 9, id, false); }
        SW(const SW& o) : id(o.id) { sim::fault_point(sim::FK_THROW); sim::registry().on_construct(this, 9, id, false); }
        SW(SW&& o) noexcept : id(o.id) { sim::registry().on_construct(this, 9, id, false); }
        SW& operator=(const SW& o) { sim::fault_point(sim::FK_THROW); id = o.id; return *this; }
        SW& operator=(SW&& o) noexcept { id = o.id; return *this; }
        ~SW() { sim::registry().on_destroy(this, 9); }
        friend void swap(SW& a, SW& b) { sim::fault_point(sim::FK_THROW); uint64_t t = a.id; a.id = b.id; b.id = t; sim::stats().add("c05.adl_swap_of_alternative_called"); }
        friend bool operator==(const SW& a, const SW& b) { return a.id == b.id; }
        friend bool operator!=(const SW& a, const SW& b) { return a.id != b.id; }
        friend bool operator<(const SW& a, const SW& b) { return a.id < b.id; }
        friend bool operator>(const SW& a, const SW& b) { return a.id > b.id; }
        friend bool operator<=(const SW& a, const SW& b) { return a.id <= b.id; }
        friend bool operator>=(const SW& a, const SW& b) { return a.id >= b.id; }
    };
    // Trivially copy-assignable and trivially move-constructible, but with its OWN move assignment (which marks the source):
    // the variant's move assignment between two such alternatives has to call it, not copy bytes.
    struct MA2
    {
        uint64_t id;
        bool moved_from;
        explicit MA2(uint64_t v) : id(v), moved_from(false) {}
        MA2(const MA2&) = default;
        MA2(MA2&&) = default;
        MA2& operator=(const MA2&) = default;
        MA2& operator=(MA2&& o) noexcept { id = o.id; moved_from = false; o.moved_from = true; return *this; }
        friend bool operator==(const MA2& a, const MA2& b) { return a.id == b.id; }
        friend bool operator!=(const MA2& a, const MA2& b) { return a.id != b.id; }
        friend bool operator<(const MA2& a, const MA2& b) { return a.id < b.id; }
        friend bool operator>(const MA2& a, const MA2& b) { return a.id > b.id; }
        friend bool operator<=(const MA2& a, const MA2& b) { return a.id <= b.id; }
        friend bool operator>=(const MA2& a, const MA2& b) { return a.id >= b.id; }
    };
    static_assert(std::is_trivially_copy_assignable<MA2>::value && std::is_trivially_move_constructible<MA2>::value && !std::is_trivially_move_assignable<MA2>::value, "MA2's shape");
    // a companion that is trivial in every respect (so that the variant's own special members depend on MA2 alone)
    struct TV
    {
        uint64_t id;
        explicit TV(uint64_t v) : id(v) {}
        friend bool operator==(const TV& a, const TV& b) { return a.id == b.id; }
        friend bool operator!=(const TV& a, const TV& b) { return a.id != b.id; }
        friend bool operator<(const TV& a, const TV& b) { return a.id < b.id; }
        friend bool operator>(const TV& a, const TV& b) { return a.id > b.id; }
        friend bool operator<=(const TV& a, const TV& b) { return a.id <= b.id; }
        friend bool operator>=(const TV& a, const TV& b) { return a.id >= b.id; }
    };
    static_assert(std::is_trivially_copyable<TV>::value && std::is_trivially_destructible<TV>::value, "TV is trivial");
    // an alternative whose unary & hands out something else than its address
    struct AMP
    {
        uint64_t id;
        explicit AMP(uint64_t v) : id(v) {}
        static AMP& decoy() { static AMP d(4242); return d; }
        AMP* operator&() { return std::addressof(decoy()); }
        const AMP* operator&() const { return std::addressof(decoy()); }
    };
    static_assert(std::is_trivially_destructible<TT>::value, "TT must be trivially destructible");
    static_assert(std::is_trivially_copy_assignable<DA>::value && !std::is_trivially_copy_constructible<DA>::value, "DA: trivial assignment, non-trivial copy");
}

#include "xtl/xvariant.hpp"
#include "xtl/xclosure.hpp"

#define VARIANT_OPS(X) \
    X(construct) X(copy_assign) X(move_assign) X(conv_assign) X(emplace_index) X(emplace_type) X(swap) X(relop) X(visit1) X(visit2) X(visit3) \
    X(hash) X(get_move) X(xget) X(big)

namespace vops
{
#define X(n) OP_##n,
    enum Op { VARIANT_OPS(X) OP_COUNT };
#undef X
}

namespace sim
{
    const char* const harness_name = "variant";
    const bool caller_threads_enabled = true;
#define X(n) #n,
    const char* const op_names[] = {VARIANT_OPS(X)};
#undef X
    const int op_count = vops::OP_COUNT;
    const char* const fault_names[] = {"none", "throw", "alloc", "stream", "syscall", nullptr};
    bool workload_admits(const std::string&, const std::string&) { return true; }
    int enumerate_kind() { return FK_THROW; }
}

namespace
{
    using namespace sim;
    using namespace vops;
    using namespace vt;

    using V = xtl::variant<int, NC, TC, TM, TM2, std::string>;
    constexpr size_t NALT = 6;
    constexpr size_t STR = 5;

    // a second variant type for xget over closure wrappers
    using XV = xtl::variant<xtl::xclosure_wrapper<int&>, xtl::xclosure_wrapper<const NC&>, NC>;
    // both closure kinds of one type in the same variant
    using XV2 = xtl::variant<xtl::xclosure_wrapper<int&>, xtl::xclosure_wrapper<const int&>, int>;

    // and one with more than 32 alternatives (the default: arm of the switch dispatcher)
    template <int I> struct Tag { int v; bool operator==(const Tag& o) const { return v == o.v; } bool operator<(const Tag& o) const { return v < o.v; } };
    template <class S> struct BigOf;
    template <int... I> struct BigOf<std::integer_sequence<int, I...>> { using type = xtl::variant<Tag<I>...>; };
    using BV = BigOf<std::make_integer_sequence<int, 34>>::type;

    struct MV
    {
        bool valueless = false;
        size_t index = 0;
        uint64_t id = 0;      // int value, Tracked id, or number the string is derived from
        bool moved = false;
        bool same_value(const MV& o) const { return valueless == o.valueless && (valueless || (index == o.index && id == o.id)); }
    };
    std::string str_of(uint64_t id) { return "string-alternative-" + std::to_string(id); }
    uint64_t id_of_str(const std::string& s) { return s.size() > 19 ? std::strtoull(s.c_str() + 19, nullptr, 10) : 0; }
    std::string show(const MV& m)
    {
        if (m.valueless) return "valueless";
        return "(index " + std::to_string(m.index) + ", value " + std::to_string(m.id) + (m.moved ? ", moved-from)" : ")");
    }

    struct Visitor1
    {
        std::pair<size_t, uint64_t> operator()(const int& x) const { return {0, static_cast<uint64_t>(x)}; }
        std::pair<size_t, uint64_t> operator()(const NC& x) const { return {1, x.id}; }
        std::pair<size_t, uint64_t> operator()(const TC& x) const { return {2, x.id}; }
        std::pair<size_t, uint64_t> operator()(const TM& x) const { return {3, x.id}; }
        std::pair<size_t, uint64_t> operator()(const TM2& x) const { return {4, x.id}; }
        std::pair<size_t, uint64_t> operator()(const std::string& x) const { return {5, id_of_str(x)}; }
    };
    struct VisitorN
    {
        template <class... T>
        std::vector<std::pair<size_t, uint64_t>> operator()(const T&... x) const { return {Visitor1()(x)...}; }
    };
    struct MoveOutVisitor
    {
        template <class T> uint64_t operator()(T&& x) const { typename std::decay<T>::type y(std::forward<T>(x)); return Visitor1()(y).second; }
    };
    struct MoveSecondVisitor
    {
        template <class A, class B> std::pair<uint64_t, uint64_t> operator()(const A& a, B&& b) const
        {
            typename std::decay<B>::type y(std::forward<B>(b));
            return {Visitor1()(a).second, Visitor1()(y).second};
        }
    };
    struct BigVisitor
    {
        template <int I> std::pair<int, int> operator()(const Tag<I>& t) const { return {I, t.v}; }
    };
    // visits mixing the 34-alternative variant with others: (big index, big value, other alternative, other value)
    struct MixedVisitor
    {
        template <int I, class T> std::vector<long> operator()(const Tag<I>& t, const T& x) const { auto r = Visitor1()(x); return {I, t.v, static_cast<long>(r.first), static_cast<long>(r.second)}; }
        template <int I, class T> std::vector<long> operator()(const T& x, const Tag<I>& t) const { auto r = Visitor1()(x); return {I, t.v, static_cast<long>(r.first), static_cast<long>(r.second)}; }
    };

    struct World
    {
        Run& run;
        const Plan& plan;
        Rng env;
        Slot<V> slot[3];
        MV model[3];
        std::string tail;
        uint64_t next_id = 100;
        // xget world
        int xint = 7;
        NC* xnc = nullptr;
        // big variant
        Slot<BV> big;
        int big_index = 0, big_value = 0;

        World(Run& r, const Plan& p) : run(r), plan(p), env(stream(p.seed, TAG_ENV))
        {
            registry().reset();
            registry().sigprefix = "C05";
            tail = "initial/-";
            for (int i = 0; i < 3; ++i) { slot[i].prepare(env, env.next()); new (slot[i].ptr()) V(); model[i] = MV(); }
            { Suspend s; xnc = new NC(55); }
            big.prepare(env, env.next());
            new (big.ptr()) BV();
        }
        void teardown()
        {
            Suspend s;
            for (int i = 0; i < 3; ++i) { slot[i].get().~V(); slot[i].unguard(); }
            big.get().~BV(); big.unguard();
            delete xnc; xnc = nullptr;
        }

        [[noreturn]] void viol(const char* cls, const char* oracle, const std::string& msg) { fail(cls, std::string("C05/") + oracle + "/" + tail, msg); }
        void lifetimes()
        {
            try { raise_pending(); }
            catch (Violation& v) { v.sig += "/" + tail; throw; }
        }
        uint64_t fresh() { return next_id++; }

        struct Scope
        {
            std::string qual;
            StepScope sc;
            Scope(World& w, const Step& st, const char* family, const std::string& variant)
                : qual(variant + (st.fkind ? ",fault" : "")), sc(w.run, st, qual.c_str())
            {
                w.tail = std::string(family) + "/" + variant;
                uint64_t a = 0;
                for (int i = 0; i < 3; ++i) a = a * 7 + (w.model[i].valueless ? 6 : w.model[i].index);
                w.run.abstract(mix(strhash(family), strhash(variant.c_str()), a * 2 + (st.fkind ? 1 : 0)));
                w.run.dig(strhash(family) ^ strhash(variant.c_str()));
            }
        };

        // ---- observation ---------------------------------------------------------------------------
        MV observe(const V& v)
        {
            MV m;
            m.valueless = v.valueless_by_exception();
            if (m.valueless) { m.index = xtl::variant_npos; return m; }
            m.index = v.index();
            switch (m.index)
            {
            case 0: m.id = static_cast<uint64_t>(xtl::get<0>(v)); break;
            case 1: m.id = xtl::get<1>(v).id; m.moved = xtl::get<1>(v).moved; break;
            case 2: m.id = xtl::get<2>(v).id; m.moved = xtl::get<2>(v).moved; break;
            case 3: m.id = xtl::get<3>(v).id; m.moved = xtl::get<3>(v).moved; break;
            case 4: m.id = xtl::get<4>(v).id; m.moved = xtl::get<4>(v).moved; break;
            case 5: m.id = id_of_str(xtl::get<5>(v)); break;
            default: viol("invariant", "index", "index() out of range: " + std::to_string(m.index));
            }
            return m;
        }
        template <size_t I> void check_alt(const V& v, const MV& m, const std::string& who)
        {
            using T = xtl::variant_alternative_t<I, V>;
            bool live = !m.valueless && m.index == I;
            if (xtl::holds_alternative<T>(v) != live) viol("invariant", "holds_alternative", who + "holds_alternative disagrees for alternative " + std::to_string(I));
            if ((xtl::get_if<I>(&v) != nullptr) != live) viol("invariant", "get_if", who + "get_if<I> disagrees for alternative " + std::to_string(I));
            if ((xtl::get_if<T>(&v) != nullptr) != live) viol("invariant", "get_if", who + "get_if<T> disagrees for alternative " + std::to_string(I));
            bool threw = false;
            try { (void)xtl::get<I>(v); } catch (const xtl::bad_variant_access&) { threw = true; }
            if (threw == live) viol("invariant", "get", who + "get<I> " + (threw ? "threw for the live" : "did not throw for a dead") + " alternative " + std::to_string(I));
            threw = false;
            try { (void)xtl::get<T>(v); } catch (const xtl::bad_variant_access&) { threw = true; }
            if (threw == live) viol("invariant", "get", who + "get<T> disagrees for alternative " + std::to_string(I));
            if (live)
            {
                const T* p = xtl::get_if<I>(&v);
                if (p != &xtl::get<I>(v) || p != &xtl::get<T>(v)) viol("invariant", "get", who + "get/get_if designate different objects");
                if (!sim::placed(*p)) viol("lifetime", "relocated", who + "the contained object was not constructed where it now lives (bytes moved without a constructor)");
            }
        }
        void check_slot(int i)
        {
            Suspend s;
            const V& v = slot[i].get();
            const MV& m = model[i];
            std::string who = "variant " + std::to_string(i) + ": ";
            if (!slot[i].canaries_ok()) viol("containment", "canary", who + "memory around the variant was overwritten");
            MV o = observe(v);
            if (o.valueless != m.valueless) viol("invariant", "state", who + "is " + show(o) + ", expected " + show(m));
            if (!m.valueless && (o.index != m.index || o.id != m.id)) viol("invariant", "state", who + "holds " + show(o) + ", expected " + show(m));
            if (m.valueless && v.index() != xtl::variant_npos) viol("invariant", "index", who + "valueless but index() != variant_npos");
            check_alt<0>(v, m, who); check_alt<1>(v, m, who); check_alt<2>(v, m, who); check_alt<3>(v, m, who); check_alt<4>(v, m, who); check_alt<5>(v, m, who);
            if (!m.valueless)
            {
                // the live alternative must be a registered, live object of its type
                const void* p = nullptr; int tag = 0;
                if (m.index == 1) { p = xtl::get_if<1>(&v); tag = 1; }
                if (m.index == 2) { p = xtl::get_if<2>(&v); tag = 2; }
                if (m.index == 3) { p = xtl::get_if<3>(&v); tag = 3; }
                if (m.index == 4) { p = xtl::get_if<4>(&v); tag = 4; }
                if (p && !registry().is_live(p, tag)) viol("lifetime", "contained-not-live", who + "the contained object is not a live object");
                std::pair<size_t, uint64_t> r = xtl::visit(Visitor1(), v);
                if (r.first != m.index || r.second != m.id) viol("invariant", "visit", who + "visit reaches alternative " + std::to_string(r.first));
            }
            run.dig(m.valueless ? 99 : m.index); run.dig(m.id);
        }
        // objects that are live must be exactly the ones held by the variants (+ the xget referent)
        void check_population()
        {
            size_t expect = 1;   // *xnc
            for (int i = 0; i < 3; ++i) if (!model[i].valueless && model[i].index >= 1 && model[i].index <= 4) ++expect;
            if (xv_live_nc) ++expect;
            if (registry().live.size() != expect)
                viol("lifetime", "population", std::to_string(registry().live.size()) + " tracked objects are live, " + std::to_string(expect) + " are held by the variants (leak or lost object)");
        }
        void check_all()
        {
            lifetimes();
            for (int i = 0; i < 3; ++i) check_slot(i);
            check_population();
        }

        // after a step in which an injected throw fired: the slot must be valueless, or hold its pre-call value, or the requested one
        void settle_after_throw(int i, const MV& pre, const MV* requested)
        {
            Suspend s;
            MV o = observe(slot[i].get());
            bool ok = o.valueless || o.same_value(pre) || (requested && o.same_value(*requested));
            if (!ok) viol("model", "after-throw", "variant " + std::to_string(i) + " is " + show(o) + " after a failed call; before it was " + show(pre) + (requested ? ", requested " + show(*requested) : ""));
            if (o.valueless) SIM_PROBE("valueless_reached");
            model[i] = o;
        }
        // a source of copy must be unchanged; of a move unchanged or moved-from
        void settle_source(int i, const MV& pre, bool moved_allowed)
        {
            Suspend s;
            MV o = observe(slot[i].get());
            // a moved-from std::string has an unspecified value (libstdc++ leaves it empty): any string is accepted there
            bool string_moved = moved_allowed && !pre.valueless && pre.index == STR && !o.valueless && o.index == STR;
            if (!string_moved && (!o.same_value(pre) || (o.moved && !pre.moved && !moved_allowed))) viol("model", "source-changed", "source variant " + std::to_string(i) + " is " + show(o) + ", was " + show(pre));
            model[i] = o;
        }

        // ---- helpers to build values of the alternative with index I ---------------------------------
        template <class F> void with_alt(size_t idx, F f)
        {
            switch (idx % NALT)
            {
            case 0: f(std::integral_constant<size_t, 0>()); break;
            case 1: f(std::integral_constant<size_t, 1>()); break;
            case 2: f(std::integral_constant<size_t, 2>()); break;
            case 3: f(std::integral_constant<size_t, 3>()); break;
            case 4: f(std::integral_constant<size_t, 4>()); break;
            default: f(std::integral_constant<size_t, 5>()); break;
            }
        }
        static int mk(std::integral_constant<size_t, 0>, uint64_t id) { return static_cast<int>(id); }
        static NC mk(std::integral_constant<size_t, 1>, uint64_t id) { return NC(id); }
        static TC mk(std::integral_constant<size_t, 2>, uint64_t id) { return TC(id); }
        static TM mk(std::integral_constant<size_t, 3>, uint64_t id) { return TM(id); }
        static TM2 mk(std::integral_constant<size_t, 4>, uint64_t id) { return TM2(id); }
        static std::string mk(std::integral_constant<size_t, 5>, uint64_t id) { return str_of(id); }
        // the harness' own temporaries are built outside the fault window
        template <class I> static auto quiet(I i, uint64_t id) { Suspend s; return mk(i, id); }
        // constructor argument for in_place / emplace
        static int arg(std::integral_constant<size_t, 0>, uint64_t id) { return static_cast<int>(id); }
        static uint64_t arg(std::integral_constant<size_t, 1>, uint64_t id) { return id; }
        static uint64_t arg(std::integral_constant<size_t, 2>, uint64_t id) { return id; }
        static uint64_t arg(std::integral_constant<size_t, 3>, uint64_t id) { return id; }
        static uint64_t arg(std::integral_constant<size_t, 4>, uint64_t id) { return id; }
        static std::string arg(std::integral_constant<size_t, 5>, uint64_t id) { return str_of(id); }
        static const char* alt_name(size_t i) { static const char* const n[] = {"int", "NC", "TC", "TM", "TM2", "string"}; return n[i % NALT]; }

        // ---- operations ----------------------------------------------------------------------------------
        void op_construct(const Step& st)
        {
            int t = st.actor % 3;
            static const char* const vn[] = {"default", "in_place_index", "in_place_type", "converting_lvalue", "converting_rvalue", "copy", "move", "converting_cstr"};
            unsigned v = static_cast<unsigned>(st.d % 8);
            size_t alt = static_cast<size_t>(st.a % NALT);
            int src = (t + 1 + static_cast<int>(st.c % 2)) % 3;
            std::string var = std::string(vn[v]) + ((v >= 1 && v <= 4) ? std::string("_") + alt_name(alt) : (v == 5 || v == 6) ? std::string("_from_") + (model[src].valueless ? "valueless" : alt_name(model[src].index)) : "");
            Scope sc(*this, st, "construct", var);
            uint64_t id = fresh();
            MV pre_src = model[src];
            MV want; want.index = alt; want.id = id;
            { Suspend s; slot[t].get().~V(); }
            slot[t].prepare(env, env.next());
            V* p = slot[t].ptr();
            bool threw = false;
            try
            {
                switch (v)
                {
                case 0: new (p) V(); want = MV(); break;
                case 1: with_alt(alt, [&](auto I) { new (p) V(mpark::in_place_index_t<decltype(I)::value>{}, arg(I, id)); }); break;
                case 2: with_alt(alt, [&](auto I) { using T = xtl::variant_alternative_t<decltype(I)::value, V>; new (p) V(mpark::in_place_type_t<T>{}, arg(I, id)); }); break;
                case 3: with_alt(alt, [&](auto I) { auto val = quiet(I, id); new (p) V(val); }); break;
                case 4: with_alt(alt, [&](auto I) { auto val = quiet(I, id); new (p) V(std::move(val)); }); break;
                case 5: new (p) V(static_cast<const V&>(slot[src].get())); want = pre_src; want.moved = pre_src.moved; break;
                case 6: new (p) V(std::move(slot[src].get())); want = pre_src; break;
                default: { const char* cs = "string-alternative-424242"; new (p) V(cs); want.index = STR; want.id = 424242; } break;
                }
            }
            catch (const Injected&) { threw = true; }
            if (threw)
            {
                // no object came into existence; give the slot a definite value again
                Suspend s;
                new (p) V();
                model[t] = MV();
                SIM_PROBE("constructor_threw");
            }
            else model[t] = want;
            if (v == 5) settle_source(src, pre_src, false);
            if (v == 6) { settle_source(src, pre_src, true); if (pre_src.valueless) SIM_PROBE("valueless_moved_or_copied"); }
            if (v == 5 && pre_src.valueless) SIM_PROBE("valueless_moved_or_copied");
            ++run.changing;
            check_all();
        }

        void op_assign(const Step& st, bool move)
        {
            int t = st.actor % 3;
            int src = static_cast<int>(st.c % 3);
            std::string var = std::string(model[t].valueless ? "valueless" : alt_name(model[t].index)) + "_from_" + (src == t ? "self" : (model[src].valueless ? "valueless" : alt_name(model[src].index)));
            Scope sc(*this, st, move ? "move_assign" : "copy_assign", var);
            MV pre = model[t], pre_src = model[src];
            bool threw = false;
            try
            {
                if (move) slot[t].get() = std::move(slot[src].get());
                else if (st.b & 4) slot[t].get() = slot[src].get();                 // non-const lvalue source
                else slot[t].get() = static_cast<const V&>(slot[src].get());
            }
            catch (const Injected&) { threw = true; }
            if (src == t) SIM_PROBE("self_assignment");
            if (!pre.valueless && !pre_src.valueless && pre.index == pre_src.index && threw) SIM_PROBE("same_index_assignment_threw");
            if (pre_src.valueless && src != t) SIM_PROBE("valueless_assigned_from");
            if (threw)
            {
                settle_after_throw(t, pre, &pre_src);
                if (src != t) settle_source(src, pre_src, move);
                if (model[t].valueless) SIM_PROBE("valueless_by_assignment");
            }
            else
            {
                if (src != t)
                {
                    model[t] = pre_src;
                    model[t].moved = pre_src.moved;
                    settle_source(src, pre_src, move);
                }
                else { Suspend s; MV o = observe(slot[t].get()); bool str_self_move = move && !pre.valueless && pre.index == STR && !o.valueless && o.index == STR; if (!str_self_move && !o.same_value(pre)) viol("model", "self-assign", "self assignment changed the value to " + show(o)); model[t] = o; }
            }
            ++run.changing;
            check_all();
        }

        void op_conv_assign(const Step& st)
        {
            int t = st.actor % 3;
            size_t alt = static_cast<size_t>(st.a % NALT);
            bool rvalue = st.b & 1;
            std::string var = std::string(model[t].valueless ? "valueless" : alt_name(model[t].index)) + "_from_" + alt_name(alt) + (rvalue ? "_rvalue" : "_lvalue");
            Scope sc(*this, st, "conv_assign", var);
            MV pre = model[t];
            uint64_t id = fresh();
            MV want; want.index = alt; want.id = id;
            bool threw = false;
            with_alt(alt, [&](auto I) {
                auto val = quiet(I, id);
                try { if (rvalue) slot[t].get() = std::move(val); else slot[t].get() = val; }
                catch (const Injected&) { threw = true; }
            });
            if (threw) { settle_after_throw(t, pre, &want); if (model[t].valueless) SIM_PROBE("valueless_by_assignment"); }
            else model[t] = want;
            ++run.changing;
            check_all();
        }

        void op_emplace(const Step& st, bool by_type)
        {
            int t = st.actor % 3;
            size_t alt = static_cast<size_t>(st.a % NALT);
            std::string var = std::string(model[t].valueless ? "valueless" : alt_name(model[t].index)) + "_to_" + alt_name(alt);
            Scope sc(*this, st, by_type ? "emplace_type" : "emplace_index", var);
            MV pre = model[t];
            uint64_t id = fresh();
            MV want; want.index = alt; want.id = id;
            bool threw = false;
            const void* ret = nullptr;
            try
            {
                with_alt(alt, [&](auto I) {
                    constexpr size_t K = decltype(I)::value;
                    using T = xtl::variant_alternative_t<K, V>;
                    if (by_type) ret = &slot[t].get().template emplace<T>(arg(I, id));
                    else ret = &slot[t].get().template emplace<K>(arg(I, id));
                });
            }
            catch (const Injected&) { threw = true; }
            if (threw) { settle_after_throw(t, pre, &want); if (model[t].valueless) SIM_PROBE("valueless_by_emplace"); }
            else
            {
                model[t] = want;
                Suspend s;
                const void* here = nullptr;
                with_alt(alt, [&](auto I) { here = xtl::get_if<decltype(I)::value>(&slot[t].get()); });
                if (ret != here) viol("model", "ret", "emplace returned a reference to something other than the new alternative");
            }
            ++run.changing;
            check_all();
        }

        void op_swap(const Step& st)
        {
            int t = st.actor % 3;
            int p = static_cast<int>(st.c % 3);
            bool free_fn = st.b & 1;
            std::string var = std::string(free_fn ? "free_" : "member_") + (p == t ? "self" : std::string(model[t].valueless ? "valueless" : alt_name(model[t].index)) + "_" + (model[p].valueless ? "valueless" : alt_name(model[p].index)));
            Scope sc(*this, st, "swap", var);
            MV a = model[t], b = model[p];
            bool threw = false;
            try
            {
                if (free_fn) { using std::swap; swap(slot[t].get(), slot[p].get()); }
                else slot[t].get().swap(slot[p].get());
            }
            catch (const Injected&) { threw = true; }
            if (p == t) SIM_PROBE("self_swap");
            if (threw)
            {
                Suspend s;
                SIM_PROBE("swap_threw");
                MV oa = observe(slot[t].get()), ob = observe(slot[p].get());
                auto ok = [&](const MV& o) { return o.valueless || o.same_value(a) || o.same_value(b); };
                if (!ok(oa) || !ok(ob)) viol("model", "after-throw", "after a failed swap the operands are " + show(oa) + " and " + show(ob) + "; they were " + show(a) + " and " + show(b));
                if (p != t && !oa.valueless && !ob.valueless && oa.same_value(ob) && !a.same_value(b) && !oa.moved && !ob.moved && oa.index != 0 && oa.index != STR)
                    viol("model", "after-throw", "after a failed swap both operands hold the same value " + show(oa) + " although nothing was copied");
                if (oa.valueless || ob.valueless) SIM_PROBE("valueless_by_swap");
                model[t] = oa; model[p] = ob;
            }
            else if (p != t)
            {
                model[t] = b; model[p] = a;
                if (a.valueless || b.valueless) SIM_PROBE("swap_with_valueless");
            }
            ++run.changing;
            check_all();
        }

        static bool model_rel(unsigned o, const MV& l, const MV& r)
        {
            auto val = [&](auto cmp) { return cmp(l.id, r.id); };
            if (l.index == 0 && r.index == 0 && !l.valueless && !r.valueless)
            {
                int a = static_cast<int>(l.id), b = static_cast<int>(r.id);
                switch (o) { case 0: return a == b; case 1: return a != b; case 2: return a < b; case 3: return a > b; case 4: return a <= b; default: return a >= b; }
            }
            if (l.index == STR && r.index == STR && !l.valueless && !r.valueless)
            {
                std::string a = str_of(l.id), b = str_of(r.id);
                switch (o) { case 0: return a == b; case 1: return a != b; case 2: return a < b; case 3: return a > b; case 4: return a <= b; default: return a >= b; }
            }
            switch (o)
            {
            case 0: if (l.valueless != r.valueless) return false; if (l.valueless) return true; if (l.index != r.index) return false; return val([](uint64_t x, uint64_t y) { return x == y; });
            case 1: if (l.valueless != r.valueless) return true; if (l.valueless) return false; if (l.index != r.index) return true; return val([](uint64_t x, uint64_t y) { return x != y; });
            case 2: if (r.valueless) return false; if (l.valueless) return true; if (l.index != r.index) return l.index < r.index; return val([](uint64_t x, uint64_t y) { return x < y; });
            case 3: if (l.valueless) return false; if (r.valueless) return true; if (l.index != r.index) return l.index > r.index; return val([](uint64_t x, uint64_t y) { return x > y; });
            case 4: if (l.valueless) return true; if (r.valueless) return false; if (l.index != r.index) return l.index < r.index; return val([](uint64_t x, uint64_t y) { return x <= y; });
            default: if (r.valueless) return true; if (l.valueless) return false; if (l.index != r.index) return l.index > r.index; return val([](uint64_t x, uint64_t y) { return x >= y; });
            }
        }
        void op_relop(const Step& st)
        {
            int t = st.actor % 3;
            int p = static_cast<int>(st.c % 3);
            static const char* const on[] = {"eq", "ne", "lt", "gt", "le", "ge"};
            unsigned o = static_cast<unsigned>(st.d % 6);
            std::string var = std::string(on[o]) + "_" + (model[t].valueless ? "valueless" : alt_name(model[t].index)) + "_" + (model[p].valueless ? "valueless" : alt_name(model[p].index));
            Scope sc(*this, st, "relop", var);
            Suspend s;
            const V& a = slot[t].get(); const V& b = slot[p].get();
            bool got;
            switch (o) { case 0: got = a == b; break; case 1: got = a != b; break; case 2: got = a < b; break; case 3: got = a > b; break; case 4: got = a <= b; break; default: got = a >= b; break; }
            bool want = model_rel(o, model[t], model[p]);
            if (got != want) viol("model", "ret", std::string("operator ") + on[o] + " on " + show(model[t]) + " and " + show(model[p]) + " returned " + (got ? "true" : "false"));
            if (model[t].valueless || model[p].valueless) SIM_PROBE("valueless_compared");
            run.dig(static_cast<uint64_t>(got));
            check_all();
        }

        void op_visit(const Step& st, int n)
        {
            int i0 = st.actor % 3, i1 = static_cast<int>(st.b % 3), i2 = static_cast<int>(st.c % 3);
            bool any_valueless = model[i0].valueless || (n >= 2 && model[i1].valueless) || (n >= 3 && model[i2].valueless);
            Scope sc(*this, st, n == 1 ? "visit1" : (n == 2 ? "visit2" : "visit3"), any_valueless ? "some_valueless" : "all_engaged");
            Suspend s;
            if (n == 2 && (st.d & 1) && i1 != i0 && !any_valueless && model[i1].index >= 1 && model[i1].index <= 4 && !model[i1].moved)
            {
                // the second of two visited variants is an rvalue: every variant keeps its own value category, so a visitor
                // that forwards its second argument moves that alternative out - no copy constructor runs
                uint64_t copies = registry().copies;
                std::pair<uint64_t, uint64_t> r = xtl::visit(MoveSecondVisitor(), static_cast<const V&>(slot[i0].get()), std::move(slot[i1].get()));
                if (registry().copies != copies) viol("model", "visit-category", "visit(f, v, std::move(w)) passed w's alternative as an lvalue: the forwarding visitor copied it");
                if (r.first != model[i0].id || r.second != model[i1].id) viol("model", "visit", "visit over (lvalue, rvalue) passed other values than the variants hold");
                model[i1].moved = true;
                SIM_PROBE("rvalue_variant_visited_as_second");
                ++run.changing;
                check_all();
                return;
            }
            std::vector<std::pair<size_t, uint64_t>> got;
            bool threw = false;
            try
            {
                if (n == 1) got = xtl::visit(VisitorN(), static_cast<const V&>(slot[i0].get()));
                else if (n == 2) got = xtl::visit(VisitorN(), static_cast<const V&>(slot[i0].get()), static_cast<const V&>(slot[i1].get()));
                else got = xtl::visit(VisitorN(), static_cast<const V&>(slot[i0].get()), static_cast<const V&>(slot[i1].get()), static_cast<const V&>(slot[i2].get()));
            }
            catch (const xtl::bad_variant_access&) { threw = true; }
            if (threw != any_valueless) viol("model", "visit", std::string("visit over ") + std::to_string(n) + " variants " + (threw ? "threw bad_variant_access although all hold a value" : "did not throw although one is valueless"));
            if (!threw)
            {
                int idx[3] = {i0, i1, i2};
                if (got.size() != static_cast<size_t>(n)) viol("model", "visit", "visitor received a wrong number of arguments");
                for (int k = 0; k < n; ++k)
                    if (got[static_cast<size_t>(k)].first != model[idx[k]].index || got[static_cast<size_t>(k)].second != model[idx[k]].id)
                        viol("model", "visit", "visit passed alternative " + std::to_string(got[static_cast<size_t>(k)].first) + " for argument " + std::to_string(k) + ", which holds " + show(model[idx[k]]));
            }
            else SIM_PROBE("valueless_visited");
            if (n == 3) SIM_PROBE("three_variant_visit");
            check_all();
        }

        void op_hash(const Step& st)
        {
            int t = st.actor % 3;
            int p = (t + 1 + static_cast<int>(st.c % 2)) % 3;
            Scope sc(*this, st, "hash", model[t].valueless ? "valueless" : alt_name(model[t].index));
            Suspend s;
            // make p equal to t through copy assignment, then equal variants must hash equally
            slot[p].get() = static_cast<const V&>(slot[t].get());
            model[p] = model[t];
            size_t h1 = std::hash<V>()(slot[t].get()), h2 = std::hash<V>()(slot[p].get());
            if (h1 != h2) viol("model", "hash", "equal variants hash differently: " + show(model[t]));
            if (!(slot[t].get() == slot[p].get())) viol("model", "ret", "a copy does not compare equal to its source: " + show(model[t]));
            ++run.changing;
            check_all();
        }

        void op_get_move(const Step& st)
        {
            int t = st.actor % 3;
            Scope sc(*this, st, "get_move", model[t].valueless ? "valueless" : alt_name(model[t].index));
            if (model[t].valueless || model[t].index == 0 || model[t].index == STR) { stats().add("skipped.get_move"); check_all(); return; }
            Suspend s;
            // moving the value out through get<I>(std::move(v)) leaves a moved-from but live alternative
            uint64_t id = 0;
            if (st.b & 1)
            {
                // the same through visit: an rvalue variant hands its alternative to the visitor as an rvalue, so a forwarding
                // visitor moves it out - no copy constructor runs (nor can one throw)
                uint64_t copies = registry().copies;
                id = xtl::visit(MoveOutVisitor(), std::move(slot[t].get()));
                if (registry().copies != copies) viol("model", "visit-category", "visit(f, std::move(v)) passed the alternative as an lvalue: the forwarding visitor copied it");
                SIM_PROBE("rvalue_variant_visited");
            }
            else if (model[t].index == 1) { NC x = xtl::get<1>(std::move(slot[t].get())); id = x.id; }
            else if (model[t].index == 2) { TC x = xtl::get<2>(std::move(slot[t].get())); id = x.id; }
            else if (model[t].index == 3) { TM x = xtl::get<3>(std::move(slot[t].get())); id = x.id; }
            else if (model[t].index == 4) { TM2 x = xtl::get<4>(std::move(slot[t].get())); id = x.id; }
            if (id != model[t].id) viol("model", "ret", "get<I>(std::move(v)) yielded another value");
            model[t].moved = true;
            SIM_PROBE("moved_from_alternative");
            ++run.changing;
            check_all();
        }

        bool xv_live_nc = false;
        void op_xget(const Step& st)
        {
            static const char* const vn[] = {"int_ref", "const_nc_ref", "nc_value", "both_closure_kinds", "swap_same_closure_alternative"};
            unsigned v = static_cast<unsigned>(st.d % 5);
            Scope sc(*this, st, "xget", vn[v]);
            Suspend s;
            {
                if (v == 0)
                {
                    XV xv(xtl::closure(xint));
                    int& r = xtl::xget<int&>(xv);
                    if (&r != &xint) viol("model", "xget", "xget<int&> does not designate the referent of the closure");
                    r = static_cast<int>(st.a % 1000);
                    if (xint != static_cast<int>(st.a % 1000)) viol("model", "xget", "write through xget<int&> did not reach the referent");
                    const XV& cxv = xv;
                    if (&xtl::xget<const int&>(cxv) != &xint) viol("model", "xget", "xget<const int&> on a variant holding xclosure_wrapper<int&> designates another object");
                    if (xv.index() != 0) viol("model", "xget", "wrong alternative for a closure of an int lvalue");
                    // the rvalue forms: a reference closure in a variant that is about to die still designates the referent
                    {
                        int& rr = xtl::xget<int&>(std::move(xv));
                        if (&rr != &xint) viol("model", "xget", "xget<int&> on an rvalue variant does not designate the referent of the closure");
                        const int& cr = xtl::xget<int&>(std::move(cxv));
                        if (&cr != &xint) viol("model", "xget", "xget<int&> on a const rvalue variant does not designate the referent of the closure");
                        const int& cr2 = xtl::xget<const int&>(std::move(xv));
                        if (&cr2 != &xint) viol("model", "xget", "xget<const int&> on an rvalue variant holding xclosure_wrapper<int&> designates another object");
                        bool threw = false;
                        try { (void)xtl::xget<NC>(std::move(xv)); } catch (const xtl::bad_variant_access&) { threw = true; }
                        if (!threw) viol("model", "xget", "xget<NC> on an rvalue variant holding the int closure did not throw bad_variant_access");
                        if (xv.index() != 0 || &xtl::xget<int&>(xv) != &xint) viol("model", "xget", "reading through xget on an rvalue variant changed the variant");
                    }
                    // an alternative that overloads unary &: get_if still hands out the address of the alternative in the variant
                    // (tried on a type of the harness: with xclosure_wrapper itself a get_if that uses unary & does not even compile)
                    {
                        using AV = xtl::variant<int, AMP>;
                        AV av(mpark::in_place_index_t<1>{}, static_cast<uint64_t>(st.b % 1000));
                        const AV& cav = av;
                        AMP* g1 = xtl::get_if<1>(&av);
                        const AMP* g2 = xtl::get_if<AMP>(&cav);
                        const char* alo = reinterpret_cast<const char*>(std::addressof(av));
                        auto inside = [&](const void* q2) { const char* c = static_cast<const char*>(q2); return c >= alo && c < alo + sizeof(AV); };
                        if (!g1 || !g2 || !inside(g1) || !inside(g2) || g1->id != st.b % 1000 || g1 != std::addressof(xtl::get<1>(av)))
                            viol("model", "get_if", "get_if on an alternative that overloads unary & does not return the address of the alternative in the variant");
                    }
                }
                else if (v == 1)
                {
                    uint64_t copies = registry().copies;
                    XV xv(xtl::const_closure(*xnc));
                    const NC& r = xtl::xget<const NC&>(xv);
                    if (&r != xnc) viol("model", "xget", "xget<const NC&> does not designate the referent");
                    if (registry().copies != copies) viol("model", "xget", "building or reading a reference closure copied the referent");
                    if (xv.index() != 1) viol("model", "xget", "wrong alternative for a const closure");
                }
                else if (v == 3)
                {
                    // a variant that lists xclosure_wrapper<int&> and xclosure_wrapper<const int&>: each xget form reaches its own alternative
                    int other = 5;
                    XV2 a(xtl::closure(xint)), b(xtl::const_closure(other));
                    if (a.index() != 0 || b.index() != 1) viol("model", "xget", "closures of an int lvalue and of a const int lvalue select the wrong alternatives");
                    if (&xtl::xget<int&>(a) != &xint) viol("model", "xget", "xget<int&> does not designate the referent");
                    bool threw = false;
                    try { if (&xtl::xget<const int&>(b) != &other) viol("model", "xget", "xget<const int&> on the const closure designates another object"); }
                    catch (const xtl::bad_variant_access&) { threw = true; }
                    if (threw) viol("model", "xget", "xget<const int&> threw bad_variant_access although the variant holds xclosure_wrapper<const int&>");
                    const XV2& cb = b;
                    if (&xtl::xget<const int&>(cb) != &other) viol("model", "xget", "xget<const int&> on a const variant designates another object");
                    threw = false;
                    try { (void)xtl::xget<int&>(b); } catch (const xtl::bad_variant_access&) { threw = true; }
                    if (!threw) viol("model", "xget", "xget<int&> did not throw although the variant holds the const closure");
                }
                else if (v == 4)
                {
                    // two variants holding the same closure alternative: swap is the alternative's own swap, i.e. the referents' values are exchanged
                    int x = static_cast<int>(st.a % 1000), y = static_cast<int>(st.b % 1000) + 1000;
                    int x0 = x, y0 = y;
                    using SV = xtl::variant<xtl::xclosure_wrapper<int&>, int>;
                    SV a(xtl::closure(x)), b(xtl::closure(y));
                    if (st.c & 1) a.swap(b); else { using std::swap; swap(a, b); }
                    if (x != y0 || y != x0) viol("model", "xget", "swapping two variants that hold xclosure_wrapper<int&> did not exchange the referents' values (the alternative's own swap was not used)");
                    if (&xtl::xget<int&>(a) != &x || &xtl::xget<int&>(b) != &y) viol("model", "xget", "swap rebound the closures");
                }
                else
                {
                    uint64_t id = fresh();
                    XV xv(mpark::in_place_index_t<2>{}, id);
                    xv_live_nc = true;
                    NC& r = xtl::xget<NC>(xv);
                    if (r.id != id || &r != xtl::get_if<2>(&xv)) viol("model", "xget", "xget<NC> does not return the stored value");
                    // rvalue forms hand out a reference to the stored alternative itself (nothing is moved or copied by the call)
                    {
                        uint64_t copies = registry().copies, moves = registry().moves;
                        NC&& rr = xtl::xget<NC>(std::move(xv));
                        const XV& cxv = xv;
                        const NC&& crr = xtl::xget<NC>(std::move(cxv));
                        if (&rr != xtl::get_if<2>(&xv) || &crr != xtl::get_if<2>(&xv) || rr.id != id) viol("model", "xget", "xget<NC> on an rvalue variant does not designate the stored alternative");
                        if (registry().copies != copies || registry().moves != moves) viol("model", "xget", "xget<NC> on an rvalue variant copied or moved the alternative");
                        bool threw = false;
                        try { (void)xtl::xget<int&>(std::move(xv)); } catch (const xtl::bad_variant_access&) { threw = true; }
                        if (!threw) viol("model", "xget", "xget<int&> on an rvalue variant holding NC did not throw bad_variant_access");
                    }
                    lifetimes();
                    check_population();
                    xv_live_nc = false;
                }
            }
            check_all();
        }

        void op_big(const Step& st)
        {
            // (two 34-alternative variants in one visit, or three variants with one of them, cost minutes of compile time
            // per translation unit and are not instantiated)
            static const char* const vn[] = {"emplace", "copy", "compare", "visit_big_small", "visit_small_big"};
            unsigned v = static_cast<unsigned>(st.d % 5);
            int idx = static_cast<int>(st.a % 34);
            if ((st.a >> 8) % 3 == 0) idx = 32 + static_cast<int>(st.a % 2);
            Scope sc(*this, st, "big", std::string(vn[v]) + (idx >= 32 && v == 0 ? "_ge32" : ""));
            Suspend s;
            BV& b = big.get();
            int val = static_cast<int>(st.b % 1000);
            if (v == 0)
            {
                emplace_big(b, idx, val, std::make_integer_sequence<int, 34>());
                big_index = idx; big_value = val;
                if (idx >= 32) SIM_PROBE("more_than_32_alternatives_dispatch");
            }
            else if (v == 1)
            {
                BV c(b);
                if (!(c == b) || c.index() != b.index()) viol("model", "big", "copy of a 34-alternative variant differs from its source");
                BV d; d = c;
                if (!(d == b)) viol("model", "big", "copy assignment of a 34-alternative variant differs from its source");
            }
            else if (v >= 3)
            {
                // multi-variant visitation in which a variant with more than 32 alternatives is NOT the last argument
                int t = st.actor % 3;
                const V& sv = slot[t].get();
                std::vector<long> got, want;
                bool threw = false;
                try
                {
                    if (v == 3) { got = xtl::visit(MixedVisitor(), static_cast<const BV&>(b), sv); want = {big_index, big_value, static_cast<long>(model[t].index), static_cast<long>(model[t].id)}; }
                    else { got = xtl::visit(MixedVisitor(), sv, static_cast<const BV&>(b)); want = {big_index, big_value, static_cast<long>(model[t].index), static_cast<long>(model[t].id)}; }
                }
                catch (const xtl::bad_variant_access&) { threw = true; }
                bool expect_throw = model[t].valueless;
                if (threw != expect_throw) viol("model", "big", std::string("visit over a 34-alternative variant and others ") + (threw ? "threw bad_variant_access although all hold a value" : "did not throw although one is valueless"));
                if (!threw && got != want) viol("model", "big", std::string("visit (") + vn[v] + ") with the 34-alternative variant holding index " + std::to_string(big_index) + " passed the wrong alternatives to the visitor");
                if (big_index >= 32 && v == 3) SIM_PROBE("multi_visit_with_index_ge_32_not_last");
            }
            else
            {
                BV c(b);
                emplace_big(c, (big_index + 1) % 34, big_value, std::make_integer_sequence<int, 34>());
                bool lt = b < c;
                if (lt != (big_index < (big_index + 1) % 34)) viol("model", "big", "operator< between alternatives " + std::to_string(big_index) + " and " + std::to_string((big_index + 1) % 34) + " is wrong");
            }
            if (b.index() != static_cast<size_t>(big_index)) viol("model", "big", "index() == " + std::to_string(b.index()) + ", expected " + std::to_string(big_index));
            std::pair<int, int> r = xtl::visit(BigVisitor(), static_cast<const BV&>(b));
            if (r.first != big_index || r.second != big_value) viol("model", "big", "visit reaches alternative " + std::to_string(r.first) + ", expected " + std::to_string(big_index));
            ++run.changing;
            check_all();
        }
        template <int... I> static void emplace_big(BV& b, int idx, int val, std::integer_sequence<int, I...>)
        {
            int dummy[] = {(idx == I ? (b.template emplace<static_cast<size_t>(I)>(Tag<I>{val}), 0) : 0)...};
            (void)dummy;
        }

        void step(const Step& st)
        {
            switch (st.op)
            {
            case OP_construct: op_construct(st); break;
            case OP_copy_assign: op_assign(st, false); break;
            case OP_move_assign: op_assign(st, true); break;
            case OP_conv_assign: op_conv_assign(st); break;
            case OP_emplace_index: op_emplace(st, false); break;
            case OP_emplace_type: op_emplace(st, true); break;
            case OP_swap: op_swap(st); break;
            case OP_relop: op_relop(st); break;
            case OP_visit1: op_visit(st, 1); break;
            case OP_visit2: op_visit(st, 2); break;
            case OP_visit3: op_visit(st, 3); break;
            case OP_hash: op_hash(st); break;
            case OP_get_move: op_get_move(st); break;
            case OP_xget: op_xget(st); break;
            case OP_big: op_big(st); break;
            default: { StepScope sc(run, st, "noop"); } break;
            }
        }
        void run_all()
        {
            check_all();
            for (const Step& st : plan.steps) as_caller(run, st, [&] { step(st); });
            tail = "teardown/-";
            teardown();
            lifetimes();
            if (!registry().live.empty()) viol("lifetime", "leak", std::to_string(registry().live.size()) + " contained objects were never destroyed");
            if (registry().constructed != registry().destroyed) viol("lifetime", "balance", "constructions and destructions do not balance");
        }
    };

    // ---- a generic world over variant<int, X, Y> for further alternative sets ------------------------------------------
    //  SetDefaulted: X = DA, Y = DB (defaulted assignment, registered lifetimes)
    //  SetTrivial:   X = double (partially ordered: NaN), Y = TT (all alternatives trivially destructible)
    struct SetDefaulted
    {
        using X = DA; using Y = DB;
        static constexpr bool tracked = true;
        static X mkx(uint64_t id) { return X(id); }
        static uint64_t idx(const X& x) { return x.id; }
        static const char* xname() { return "DA"; }
        static const char* yname() { return "DB"; }
    };
    struct SetTrivial
    {
        using X = double; using Y = TT;
        static constexpr bool tracked = false;
        static X mkx(uint64_t id)
        {
            const double tab[6] = {0.0, -0.0, 1.5, -3.0, std::numeric_limits<double>::infinity(), std::numeric_limits<double>::quiet_NaN()};
            return tab[id % 6];
        }
        static uint64_t idx(const X& x) { for (uint64_t k = 0; k < 6; ++k) { X t = mkx(k); if (std::memcmp(&t, &x, sizeof(X)) == 0) return k; } return 99; }
        static const char* xname() { return "double"; }
        static const char* yname() { return "TT"; }
    };

    struct SetConverting
    {
        using X = NA; using Y = DB;
        static constexpr bool tracked = true;
        static X mkx(uint64_t id) { return X(id); }
        static uint64_t idx(const X& x) { return x.id; }
        static const char* xname() { return "NA"; }
        static const char* yname() { return "DB"; }
    };
    struct SetGreedy
    {
        using X = GR; using Y = DB;
        static constexpr bool tracked = true;
        static X mkx(uint64_t id) { return X(id); }
        static uint64_t idx(const X& x) { return x.id; }
        static const char* xname() { return "GR"; }
        static const char* yname() { return "DB"; }
    };
    struct SetMoveAssign
    {
        using X = MA2; using Y = TV;
        static constexpr bool tracked = false;
        static X mkx(uint64_t id) { return X(id % 6); }
        static uint64_t idx(const X& x) { return x.id; }
        static const char* xname() { return "MA2"; }
        static const char* yname() { return "TV"; }
        static bool source_marked(const X& x) { return x.moved_from; }
    };
    struct SetSwap
    {
        // every alternative moves without throwing (so variant::swap could believe it cannot throw) - only SW's own swap can
        using X = SW; using Y = Reg<6, true>;
        static constexpr bool tracked = true;
        static X mkx(uint64_t id) { return X(id); }
        static uint64_t idx(const X& x) { return x.id; }
        static const char* xname() { return "SW"; }
        static const char* yname() { return "DB"; }
    };
    struct SetHolder
    {
        using X = NB; using Y = HD;
        static constexpr bool tracked = true;
        static X mkx(uint64_t id) { return X(id); }
        static uint64_t idx(const X& x) { return x.id; }
        static const char* xname() { return "NB"; }
        static const char* yname() { return "HD"; }
    };
    // 0: no assignment from a converting argument; 1: from a local Arg; 2: from an HArg, also one inside the held alternative
    template <class S> struct arg_mode_of { static constexpr int value = 0; };
    template <class S> struct reg_tag_x { static constexpr int value = 5; };
    template <> struct reg_tag_x<SetSwap> { static constexpr int value = 9; };
    template <> struct reg_tag_x<SetGreedy> { static constexpr int value = 8; };
    template <> struct reg_tag_x<SetConverting> { static constexpr int value = 7; };
    template <> struct reg_tag_x<SetHolder> { static constexpr int value = 11; };
    template <> struct arg_mode_of<SetConverting> { static constexpr int value = 1; };
    template <> struct arg_mode_of<SetHolder> { static constexpr int value = 2; };

    template <class S>
    struct SmallWorld
    {
        using X = typename S::X; using Y = typename S::Y;
        using SV = xtl::variant<int, X, Y>;
        Run& run;
        const Plan& plan;
        Rng env;
        Slot<SV> slot[3];
        MV model[3];
        std::string tail;
        uint64_t next_id = 100;

        SmallWorld(Run& r, const Plan& p) : run(r), plan(p), env(stream(p.seed, TAG_ENV))
        {
            registry().reset();
            registry().sigprefix = "C05";
            tail = "initial/-";
            for (int i = 0; i < 3; ++i) { slot[i].prepare(env, env.next()); new (slot[i].ptr()) SV(); model[i] = MV(); }
        }
        void teardown() { Suspend s; for (int i = 0; i < 3; ++i) { slot[i].get().~SV(); slot[i].unguard(); } }
        [[noreturn]] void viol(const char* cls, const char* oracle, const std::string& msg) { fail(cls, std::string("C05/") + oracle + "/" + plan.cfg + "/" + tail, msg); }
        void lifetimes() { try { raise_pending(); } catch (Violation& v) { v.sig += "/" + plan.cfg + "/" + tail; throw; } }
        uint64_t fresh() { return next_id++; }
        static const char* alt_name(size_t i) { return i == 0 ? "int" : (i == 1 ? S::xname() : S::yname()); }
        static std::string name_of(const MV& m) { return m.valueless ? "valueless" : alt_name(m.index); }
        // ids are reduced so that the double alternative can represent them
        static uint64_t canon(size_t alt, uint64_t id) { return (alt == 1 && !S::tracked) ? id % 6 : id; }

        struct Scope
        {
            std::string qual;
            StepScope sc;
            Scope(SmallWorld& w, const Step& st, const char* family, const std::string& variant)
                : qual(variant + (st.fkind ? ",fault" : "")), sc(w.run, st, qual.c_str())
            {
                w.tail = std::string(family) + "/" + variant;
                uint64_t a = 0;
                for (int i = 0; i < 3; ++i) a = a * 5 + (w.model[i].valueless ? 4 : w.model[i].index);
                w.run.abstract(mix(strhash(w.plan.cfg.c_str()) ^ strhash(family), strhash(variant.c_str()), a * 2 + (st.fkind ? 1 : 0)));
                w.run.dig(strhash(family) ^ strhash(variant.c_str()));
            }
        };

        MV observe(const SV& v)
        {
            MV m;
            m.valueless = v.valueless_by_exception();
            if (m.valueless) { m.index = xtl::variant_npos; return m; }
            m.index = v.index();
            if (m.index == 0) m.id = static_cast<uint64_t>(xtl::get<0>(v));
            else if (m.index == 1) m.id = S::idx(xtl::get<1>(v));
            else if (m.index == 2) m.id = xtl::get<2>(v).id;
            else viol("invariant", "index", "index() out of range: " + std::to_string(m.index));
            return m;
        }
        struct Vis
        {
            std::pair<size_t, uint64_t> operator()(const int& x) const { return {0, static_cast<uint64_t>(x)}; }
            std::pair<size_t, uint64_t> operator()(const X& x) const { return {1, S::idx(x)}; }
            std::pair<size_t, uint64_t> operator()(const Y& x) const { return {2, x.id}; }
        };
        template <size_t I, class T> void check_alt(const SV& v, const MV& m, const std::string& who)
        {
            bool live = !m.valueless && m.index == I;
            if (xtl::holds_alternative<T>(v) != live) viol("invariant", "holds_alternative", who + "holds_alternative disagrees for alternative " + std::to_string(I));
            if ((xtl::get_if<I>(&v) != nullptr) != live || (xtl::get_if<T>(&v) != nullptr) != live) viol("invariant", "get_if", who + "get_if disagrees for alternative " + std::to_string(I));
            bool threw = false;
            try { (void)xtl::get<I>(v); } catch (const xtl::bad_variant_access&) { threw = true; }
            if (threw == live) viol("invariant", "get", who + "get<I> " + (threw ? "threw for the live" : "did not throw for a dead") + " alternative " + std::to_string(I));
        }
        void check_slot(int i)
        {
            Suspend s;
            const SV& v = slot[i].get();
            const MV& m = model[i];
            std::string who = "variant " + std::to_string(i) + ": ";
            if (!slot[i].canaries_ok()) viol("containment", "canary", who + "memory around the variant was overwritten");
            MV o = observe(v);
            if (o.valueless != m.valueless) viol("invariant", "state", who + "is " + show(o) + ", expected " + show(m));
            if (!m.valueless && (o.index != m.index || o.id != m.id)) viol("invariant", "state", who + "holds " + show(o) + ", expected " + show(m));
            if (m.valueless && v.index() != xtl::variant_npos) viol("invariant", "index", who + "valueless but index() != variant_npos");
            check_alt<0, int>(v, m, who); check_alt<1, X>(v, m, who); check_alt<2, Y>(v, m, who);
            if (!m.valueless)
            {
                if (S::tracked)
                {
                    const void* p = m.index == 1 ? static_cast<const void*>(xtl::get_if<1>(&v)) : (m.index == 2 ? static_cast<const void*>(xtl::get_if<2>(&v)) : nullptr);
                    if (p && !registry().is_live(p, m.index == 1 ? reg_tag_x<S>::value : 6)) viol("lifetime", "contained-not-live", who + "the contained object is not a live object");
                }
                std::pair<size_t, uint64_t> r = xtl::visit(Vis(), v);
                if (r.first != m.index || r.second != m.id) viol("invariant", "visit", who + "visit reaches alternative " + std::to_string(r.first));
            }
            run.dig(m.valueless ? 99 : m.index); run.dig(m.id);
        }
        void check_all()
        {
            lifetimes();
            for (int i = 0; i < 3; ++i) check_slot(i);
            if (S::tracked)
            {
                size_t expect = 0;
                // (an HD holds a registered member of its own)
                for (int i = 0; i < 3; ++i) if (!model[i].valueless && model[i].index >= 1) expect += (model[i].index == 2 && arg_mode_of<S>::value == 2) ? 2 : 1;
                if (registry().live.size() != expect)
                    viol("lifetime", "population", std::to_string(registry().live.size()) + " registered objects are live, " + std::to_string(expect) + " are held by the variants (leak, lost object, or an alternative that was never constructed/destroyed)");
            }
        }
        void settle_after_throw(int i, const MV& pre, const MV* requested)
        {
            Suspend s;
            MV o = observe(slot[i].get());
            bool ok = o.valueless || o.same_value(pre) || (requested && o.same_value(*requested));
            if (!ok) viol("model", "after-throw", "variant " + std::to_string(i) + " is " + show(o) + " after a failed call; before it was " + show(pre) + (requested ? ", requested " + show(*requested) : ""));
            if (o.valueless) SIM_PROBE("valueless_reached");
            model[i] = o;
        }
        void settle_source(int i, const MV& pre)
        {
            Suspend s;
            MV o = observe(slot[i].get());
            if (!o.same_value(pre)) viol("model", "source-changed", "source variant " + std::to_string(i) + " is " + show(o) + ", was " + show(pre));
            model[i] = o;
        }
        template <class F> void with_alt(size_t idx, F f)
        {
            switch (idx % 3)
            {
            case 0: f(std::integral_constant<size_t, 0>()); break;
            case 1: f(std::integral_constant<size_t, 1>()); break;
            default: f(std::integral_constant<size_t, 2>()); break;
            }
        }
        static int mk(std::integral_constant<size_t, 0>, uint64_t id) { return static_cast<int>(id); }
        static X mk(std::integral_constant<size_t, 1>, uint64_t id) { return S::mkx(id); }
        static Y mk(std::integral_constant<size_t, 2>, uint64_t id) { return Y(id); }
        template <class I> static auto quiet(I i, uint64_t id) { Suspend s; return mk(i, id); }

        void op_construct(const Step& st)
        {
            int t = st.actor % 3;
            static const char* const vn[] = {"default", "in_place_index", "converting_lvalue", "converting_rvalue", "copy", "move", "copy_const_rvalue", "copy_nonconst_lvalue"};
            unsigned v = static_cast<unsigned>(st.d % 8);
            size_t alt = static_cast<size_t>(st.a % 3);
            int src = (t + 1 + static_cast<int>(st.c % 2)) % 3;
            std::string var = std::string(vn[v]) + ((v >= 1 && v <= 3) ? std::string("_") + alt_name(alt) : (v >= 4 ? "_from_" + name_of(model[src]) : std::string()));
            Scope sc(*this, st, "construct", var);
            uint64_t id = canon(alt, fresh());
            MV pre_src = model[src];
            MV want; want.index = alt; want.id = id;
            { Suspend s; slot[t].get().~SV(); }
            slot[t].prepare(env, env.next());
            SV* p = slot[t].ptr();
            bool threw = false;
            try
            {
                switch (v)
                {
                case 0: new (p) SV(); want = MV(); break;
                case 1: with_alt(alt, [&](auto I) { auto val = quiet(I, id); new (p) SV(mpark::in_place_index_t<decltype(I)::value>{}, val); }); break;
                case 2: with_alt(alt, [&](auto I) { auto val = quiet(I, id); new (p) SV(val); }); break;
                case 3: with_alt(alt, [&](auto I) { auto val = quiet(I, id); new (p) SV(std::move(val)); }); break;
                case 4: new (p) SV(static_cast<const SV&>(slot[src].get())); want = pre_src; break;
                case 6: new (p) SV(std::move(static_cast<const SV&>(slot[src].get()))); want = pre_src; break;
                case 7: new (p) SV(slot[src].get()); want = pre_src; break;
                default: new (p) SV(std::move(slot[src].get())); want = pre_src; break;
                }
            }
            catch (const Injected&) { threw = true; }
            if (threw) { Suspend s; new (p) SV(); model[t] = MV(); SIM_PROBE("constructor_threw"); }
            else model[t] = want;
            if (v >= 4) settle_source(src, pre_src);
            ++run.changing;
            check_all();
        }
        void op_assign(const Step& st, bool move)
        {
            int t = st.actor % 3;
            int src = static_cast<int>(st.c % 3);
            // a const rvalue source (std::move of a const variant, a function returning const variant) is a copy assignment
            bool const_rvalue = !move && (st.b & 2);
            std::string var = name_of(model[t]) + "_from_" + (const_rvalue ? "const_rvalue_" : "") + (src == t ? std::string("self") : name_of(model[src]));
            Scope sc(*this, st, move ? "move_assign" : "copy_assign", var);
            MV pre = model[t], pre_src = model[src];
            bool threw = false;
            try
            {
                if (move) slot[t].get() = std::move(slot[src].get());
                else if (const_rvalue) slot[t].get() = std::move(static_cast<const SV&>(slot[src].get()));
                else if (st.b & 4) { slot[t].get() = slot[src].get(); SIM_PROBE("assigned_from_nonconst_lvalue_variant"); }     // a non-const lvalue: still the copy assignment
                else slot[t].get() = static_cast<const SV&>(slot[src].get());
            }
            catch (const Injected&) { threw = true; }
            if (threw) { settle_after_throw(t, pre, &pre_src); if (src != t) settle_source(src, pre_src); if (model[t].valueless) SIM_PROBE("valueless_by_assignment"); }
            else { if (src != t) { model[t] = pre_src; settle_source(src, pre_src); } }
            if (move && !threw && src != t && !pre.valueless && !pre_src.valueless && pre.index == 1 && pre_src.index == 1)
                same_index_move(src, std::is_same<S, SetMoveAssign>());
            if (const_rvalue && !threw) SIM_PROBE("assigned_from_const_rvalue_variant");
            if (!pre.valueless && !pre_src.valueless && pre.index != pre_src.index && src != t) SIM_PROBE("assignment_switching_alternative_defaulted_or_trivial_set");
            ++run.changing;
            check_all();
        }
        // move assignment between two variants holding the same alternative is that alternative's own move assignment
        void same_index_move(int, std::false_type) {}
        void same_index_move(int src, std::true_type)
        {
            Suspend s;
            const X* x = xtl::get_if<1>(&slot[src].get());
            if (!x || !S::source_marked(*x)) viol("model", "move-assign", "move assignment between two variants holding the same alternative did not run that alternative's move assignment (its source is not marked)");
            SIM_PROBE("same_alternative_move_assignment_observed");
        }
        void op_conv_assign(const Step& st)
        {
            int t = st.actor % 3;
            size_t alt = static_cast<size_t>(st.a % 3);
            bool rvalue = st.b & 1;
            Scope sc(*this, st, "conv_assign", name_of(model[t]) + "_from_" + alt_name(alt) + (rvalue ? "_rvalue" : "_lvalue"));
            MV pre = model[t];
            uint64_t id = canon(alt, fresh());
            MV want; want.index = alt; want.id = id;
            bool threw = false;
            with_alt(alt, [&](auto I) {
                auto val = quiet(I, id);
                try { if (rvalue) slot[t].get() = std::move(val); else slot[t].get() = val; }
                catch (const Injected&) { threw = true; }
            });
            if (threw) { settle_after_throw(t, pre, &want); if (model[t].valueless) SIM_PROBE("valueless_by_assignment"); }
            else model[t] = want;
            ++run.changing;
            check_all();
        }
        // assignment from a value that converts to alternative 1: assignable without throwing, constructible only with a throw possible
        void op_arg_assign(const Step& st, std::integral_constant<int, 0>) { Scope sc(*this, st, "read", "all"); check_all(); }
        void op_arg_assign(const Step& st, std::integral_constant<int, 2>)
        {
            int t = st.actor % 3;
            MV pre = model[t];
            bool inside = !pre.valueless && pre.index == 2;
            Scope sc(*this, st, "arg_assign", name_of(model[t]) + (inside ? "_from_the_argument_inside_it" : "_from_HArg"));
            uint64_t id = inside ? pre.id : fresh();
            MV want; want.index = 1; want.id = id;
            bool threw = false;
            if (inside)
            {
                // the argument is a member of the alternative this very assignment is going to replace
                SV& v = slot[t].get();
                try { v = xtl::get<2>(v).inner; }
                catch (const Injected&) { threw = true; }
                SIM_PROBE("converting_assignment_from_inside_the_held_alternative");
            }
            else
            {
                HArg a(id);
                try { slot[t].get() = a; }
                catch (const Injected&) { threw = true; }
            }
            if (threw) { settle_after_throw(t, pre, &want); if (model[t].valueless) SIM_PROBE("valueless_by_assignment"); SIM_PROBE("converting_assignment_threw_in_constructor"); }
            else model[t] = want;
            ++run.changing;
            check_all();
        }
        // emplace / in-place construction with two arguments is direct-initialisation: NB(a, b), never NB{a, b}
        bool emplace_two(const Step&, int, std::false_type) { return false; }
        bool emplace_two(const Step& st, int t, std::true_type)
        {
            Scope sc(*this, st, "emplace_two_arguments", name_of(model[t]) + "_to_NB");
            MV pre = model[t];
            uint64_t id = fresh();
            MV want; want.index = 1; want.id = id;
            bool threw = false;
            try
            {
                if ((st.b & 96) == 96)
                {
                    Arg a{1};
                    slot[t].get().template emplace<X>({id - 1}, std::move(a));
                    if (!a.consumed) viol("model", "value-category", "emplace<T>(initializer_list, Arg&&) built the alternative from a copy of its rvalue argument");
                    SIM_PROBE("emplace_with_initializer_list_and_rvalue");
                }
                else if (st.b & 8) { slot[t].get().template emplace<X>(id - 1, uint64_t(1)); }
                else if (st.b & 16) { slot[t].get().template emplace<1>(id - 1, uint64_t(1)); }
                else { slot[t].get() = SV(mpark::in_place_index_t<1>{}, id - 1, uint64_t(1)); }
            }
            catch (const Injected&) { threw = true; }
            if (threw) settle_after_throw(t, pre, &want); else model[t] = want;
            SIM_PROBE("alternative_built_from_two_arguments");
            ++run.changing;
            check_all();
            return true;
        }
        void op_arg_assign(const Step& st, std::integral_constant<int, 1>)
        {
            int t = st.actor % 3;
            Scope sc(*this, st, "arg_assign", name_of(model[t]) + "_from_Arg");
            MV pre = model[t];
            uint64_t id = fresh();
            MV want; want.index = 1; want.id = id;
            bool threw = false;
            Arg a{id};
            bool rv = st.b & 1;
            bool was_x = !pre.valueless && pre.index == 1;
            try { if (rv) slot[t].get() = std::move(a); else slot[t].get() = a; }
            catch (const Injected&) { threw = true; }
            // an rvalue source that has to be CONSTRUCTED into the alternative (the variant held another one) is consumed by
            // NA(Arg&&); an lvalue source never is (when the variant already holds NA, its assignment from Arg runs instead)
            if (!threw && !was_x && a.consumed != rv) viol("model", "value-category", std::string("converting assignment from an ") + (rv ? "rvalue built the alternative from a copy of its source" : "lvalue consumed its source"));
            if (!rv && a.consumed) viol("model", "value-category", "converting assignment from an lvalue consumed its source");
            if (threw) { settle_after_throw(t, pre, &want); if (model[t].valueless) SIM_PROBE("valueless_by_assignment"); SIM_PROBE("converting_assignment_threw_in_constructor"); }
            else model[t] = want;
            ++run.changing;
            check_all();
        }

        void op_emplace(const Step& st)
        {
            int t = st.actor % 3;
            size_t alt = static_cast<size_t>(st.a % 3);
            if (arg_mode_of<S>::value == 2 && alt == 1 && (st.b & 4) && emplace_two(st, t, std::integral_constant<bool, arg_mode_of<S>::value == 2>())) return;
            Scope sc(*this, st, "emplace_index", name_of(model[t]) + "_to_" + alt_name(alt));
            MV pre = model[t];
            uint64_t id = canon(alt, fresh());
            MV want; want.index = alt; want.id = id;
            bool threw = false;
            with_alt(alt, [&](auto I) {
                auto val = quiet(I, id);
                try { slot[t].get().template emplace<decltype(I)::value>(val); }
                catch (const Injected&) { threw = true; }
            });
            if (threw) { settle_after_throw(t, pre, &want); if (model[t].valueless) SIM_PROBE("valueless_by_emplace"); }
            else model[t] = want;
            ++run.changing;
            check_all();
        }
        void op_swap(const Step& st)
        {
            int t = st.actor % 3;
            int p = static_cast<int>(st.c % 3);
            Scope sc(*this, st, "swap", p == t ? std::string("self") : name_of(model[t]) + "_" + name_of(model[p]));
            MV a = model[t], b = model[p];
            bool threw = false;
            try { slot[t].get().swap(slot[p].get()); }
            catch (const Injected&) { threw = true; }
            if (threw)
            {
                Suspend s;
                SIM_PROBE("swap_threw");
                MV oa = observe(slot[t].get()), ob = observe(slot[p].get());
                auto ok = [&](const MV& o) { return o.valueless || o.same_value(a) || o.same_value(b); };
                if (!ok(oa) || !ok(ob)) viol("model", "after-throw", "after a failed swap the operands are " + show(oa) + " and " + show(ob) + "; they were " + show(a) + " and " + show(b));
                model[t] = oa; model[p] = ob;
            }
            else if (p != t) { model[t] = b; model[p] = a; if (a.valueless || b.valueless) SIM_PROBE("swap_with_valueless"); }
            ++run.changing;
            check_all();
        }
        template <class T> static bool rel(unsigned o, const T& a, const T& b)
        {
            switch (o) { case 0: return a == b; case 1: return a != b; case 2: return a < b; case 3: return a > b; case 4: return a <= b; default: return a >= b; }
        }
        bool model_rel(unsigned o, const MV& l, const MV& r)
        {
            if (!l.valueless && !r.valueless && l.index == r.index)
            {
                // same alternative: exactly the contained values' own operator (which need not be a total order)
                if (l.index == 0) return rel(o, static_cast<int>(l.id), static_cast<int>(r.id));
                if (l.index == 1) { X a = S::mkx(l.id), b = S::mkx(r.id); return rel(o, a, b); }
                Y a(l.id), b(r.id); return rel(o, a, b);
            }
            switch (o)
            {
            case 0: return l.valueless && r.valueless;
            case 1: return !(l.valueless && r.valueless);
            case 2: if (r.valueless) return false; if (l.valueless) return true; return l.index < r.index;
            case 3: if (l.valueless) return false; if (r.valueless) return true; return l.index > r.index;
            case 4: if (l.valueless) return true; if (r.valueless) return false; return l.index < r.index;
            default: if (r.valueless) return true; if (l.valueless) return false; return l.index > r.index;
            }
        }
        void op_relop(const Step& st)
        {
            int t = st.actor % 3;
            int p = static_cast<int>(st.c % 3);
            static const char* const on[] = {"eq", "ne", "lt", "gt", "le", "ge"};
            unsigned o = static_cast<unsigned>(st.d % 6);
            Scope sc(*this, st, "relop", std::string(on[o]) + "_" + name_of(model[t]) + "_" + name_of(model[p]));
            Suspend s;
            const SV& a = slot[t].get(); const SV& b = slot[p].get();
            bool got = rel(o, a, b);
            bool want = model_rel(o, model[t], model[p]);
            if (got != want) viol("model", "ret", std::string("operator ") + on[o] + " on " + show(model[t]) + " and " + show(model[p]) + " returned " + (got ? "true" : "false"));
            if (!S::tracked && !model[t].valueless && !model[p].valueless && model[t].index == 1 && model[p].index == 1 && (model[t].id == 5 || model[p].id == 5)) SIM_PROBE("unordered_values_compared");
            run.dig(static_cast<uint64_t>(got));
            check_all();
        }
        void step(const Step& st)
        {
            switch (st.op)
            {
            case OP_construct: op_construct(st); break;
            case OP_copy_assign: op_assign(st, false); break;
            case OP_move_assign: op_assign(st, true); break;
            case OP_conv_assign: op_conv_assign(st); break;
            case OP_emplace_index: case OP_emplace_type: op_emplace(st); break;
            case OP_swap: op_swap(st); break;
            case OP_relop: op_relop(st); break;
            case OP_visit1: case OP_visit2: case OP_hash: op_arg_assign(st, std::integral_constant<int, arg_mode_of<S>::value>()); break;
            default: { Scope sc(*this, st, "read", "all"); check_all(); } break;
            }
        }
        void run_all()
        {
            check_all();
            for (const Step& st : plan.steps) as_caller(run, st, [&] { step(st); });
            tail = "teardown/-";
            teardown();
            lifetimes();
            if (!registry().live.empty()) viol("lifetime", "leak", std::to_string(registry().live.size()) + " contained objects were never destroyed");
            if (registry().constructed != registry().destroyed) viol("lifetime", "balance", "constructions and destructions do not balance");
        }
    };

    void gen(Plan& plan, Rng& cfg, Rng& pr, int)
    {
        size_t n = 1;
        while (n < 15 && cfg.below(6) != 0) ++n;
        plan.params.push_back(n);
        unsigned fault_pct = static_cast<unsigned>(cfg.below(4)) * 15;   // 0, 15, 30, 45 %
        plan.params.push_back(fault_pct);
        unsigned w[OP_COUNT];
        for (unsigned i = 0; i < OP_COUNT; ++i) w[i] = 4;
        w[OP_copy_assign] = w[OP_move_assign] = 8; w[OP_swap] = 8; w[OP_emplace_index] = 6; w[OP_conv_assign] = 6; w[OP_construct] = 6;
        w[OP_xget] = 1; w[OP_big] = 2; w[OP_hash] = 2; w[OP_get_move] = 2;
        if (cfg.below(3) == 0)
            for (unsigned i = 0; i < OP_COUNT; ++i) if (cfg.below(4) == 0) w[i] = 0;
        unsigned total = 0;
        for (unsigned i = 0; i < OP_COUNT; ++i) total += w[i];
        if (!total) { w[OP_swap] = 1; total = 1; }
        for (size_t i = 0; i < n; ++i)
        {
            Step s;
            uint64_t pick = pr.below(total);
            for (unsigned o = 0; o < OP_COUNT; ++o) { if (pick < w[o]) { s.op = static_cast<int>(o); break; } pick -= w[o]; }
            s.actor = static_cast<int>(pr.below(3));
            s.a = pr.next() >> 40; s.b = pr.next() >> 40; s.c = pr.next() >> 40; s.d = pr.next() >> 44;
            bool can_throw = s.op <= OP_swap;
            if (can_throw && pr.below(100) < fault_pct) { s.fkind = FK_THROW; s.fk = pr.below(3); }
            plan.steps.push_back(s);
        }
    }

    void gen_conv(Plan& plan, Rng& cfg, Rng& pr, int tier)
    {
        gen(plan, cfg, pr, tier);
        unsigned pct = plan.params.size() > 1 ? static_cast<unsigned>(plan.params[1]) : 0;
        for (Step& s : plan.steps)
            if ((s.op == OP_visit1 || s.op == OP_visit2 || s.op == OP_hash) && pr.below(100) < pct) { s.fkind = FK_THROW; s.fk = pr.below(2); }
    }

    void exec(const Plan& plan, Run& run)
    {
        std::unique_ptr<World> w(new World(run, plan));
        try { w->run_all(); }
        catch (...) { Suspend s; clear_pending(); try { w->teardown(); } catch (...) {} clear_pending(); throw; }
    }

    template <class W> void exec_small(const Plan& plan, Run& run)
    {
        std::unique_ptr<W> w(new W(run, plan));
        try { w->run_all(); }
        catch (...) { Suspend s; clear_pending(); try { w->teardown(); } catch (...) {} clear_pending(); throw; }
    }

    RegisterCfg reg("int_NC_TC_TM_TM2_string", gen, exec, 6, false);
    RegisterCfg reg_b("int_DA_DB_defaulted_assignment", gen, exec_small<SmallWorld<SetDefaulted>>, 1, false);
    RegisterCfg reg_c("int_double_TT_trivially_destructible", gen, exec_small<SmallWorld<SetTrivial>>, 1, false);
    RegisterCfg reg_d("int_NA_DB_converting_assignment", gen_conv, exec_small<SmallWorld<SetConverting>>, 1, false);
    RegisterCfg reg_e("int_GR_DB_alternative_constructible_from_anything", gen, exec_small<SmallWorld<SetGreedy>>, 1, false);
    RegisterCfg reg_h("int_NB_HD_argument_inside_the_held_alternative", gen_conv, exec_small<SmallWorld<SetHolder>>, 1, false);
    RegisterCfg reg_g("int_MA2_TV_alternative_with_own_move_assignment", gen, exec_small<SmallWorld<SetMoveAssign>>, 1, false);
    RegisterCfg reg_f("int_SW_DBN_alternative_with_throwing_swap", gen, exec_small<SmallWorld<SetSwap>>, 1, false);
}
