// harness `variant`, second translation unit — C05 on a variant with exactly 256 alternatives.
//
// The number of alternatives is a configuration like any other: 256 is the count at which an index stored in one byte
// has no value left for "valueless".  The last alternative (#255) is lifetime-tracked and its constructors can throw.
// Kept in its own translation unit because instantiating the 256-arm visitations takes a compiler about a minute and
// several gigabytes per kind of operation; for the same reason only copying operations are driven here (moves and swap
// of the variant are covered by the other configurations) and this unit is compiled with ASan but without UBSan.
#include "../../sim/simkit.hpp"

#include <string>
#include <utility>

#include "xtl/xvariant.hpp"

namespace
{
    using namespace sim;

    // op numbers of the variant harness that this world interprets (names are those of variant.cpp's table)
    enum { W_construct = 0, W_copy_assign = 1, W_emplace = 4, W_visit = 8 };

    template <int I> struct WTag { int v; };
    using Last = Tracked<9, 8, true, true>;        // nothrow move, copy and construction can throw
    template <class S> struct WideOf;
    template <int... I> struct WideOf<std::integer_sequence<int, I...>> { using type = xtl::variant<WTag<I>..., Last>; };
    using W256 = WideOf<std::make_integer_sequence<int, 255>>::type;
    static_assert(mpark::variant_size<W256>::value == 256, "exactly 256 alternatives");

    constexpr size_t NPICK = 4;
    const size_t picks[NPICK] = {0, 127, 254, 255};

    struct MW
    {
        bool valueless = false;
        size_t index = 0;
        uint64_t id = 0;
        bool same(const MW& o) const { return valueless == o.valueless && (valueless || (index == o.index && id == o.id)); }
    };
    std::string show(const MW& m) { return m.valueless ? "valueless" : "(index " + std::to_string(m.index) + ", value " + std::to_string(m.id) + ")"; }

    struct WVisitor
    {
        template <int I> std::pair<size_t, uint64_t> operator()(const WTag<I>& t) const { return {static_cast<size_t>(I), static_cast<uint64_t>(t.v)}; }
        std::pair<size_t, uint64_t> operator()(const Last& l) const { return {255, l.id}; }
    };

    struct WideWorld
    {
        Run& run;
        const Plan& plan;
        Rng env;
        Slot<W256> slot[2];
        MW model[2];
        std::string tail;
        uint64_t next_id = 500;

        WideWorld(Run& r, const Plan& p) : run(r), plan(p), env(stream(p.seed, TAG_ENV))
        {
            registry().reset();
            registry().sigprefix = "C05";
            tail = "initial/-";
            for (int i = 0; i < 2; ++i) { slot[i].prepare(env, env.next()); new (slot[i].ptr()) W256(); model[i] = MW(); }
        }
        void teardown() { Suspend s; for (int i = 0; i < 2; ++i) { slot[i].get().~W256(); slot[i].unguard(); } }
        [[noreturn]] void viol(const char* cls, const char* oracle, const std::string& msg) { fail(cls, std::string("C05/") + oracle + "/" + plan.cfg + "/" + tail, msg); }
        void lifetimes() { try { raise_pending(); } catch (Violation& v) { v.sig += "/" + plan.cfg + "/" + tail; throw; } }

        MW observe(const W256& v)
        {
            MW m;
            m.valueless = v.valueless_by_exception();
            m.index = v.index();
            if (m.valueless) return m;
            std::pair<size_t, uint64_t> r = xtl::visit(WVisitor(), v);
            if (r.first != m.index) viol("invariant", "visit", "visit reaches alternative " + std::to_string(r.first) + " of a variant whose index() is " + std::to_string(m.index));
            m.id = r.second;
            return m;
        }
        void check_slot(int i)
        {
            Suspend s;
            const W256& v = slot[i].get();
            const MW& m = model[i];
            std::string who = "variant " + std::to_string(i) + ": ";
            if (!slot[i].canaries_ok()) viol("containment", "canary", who + "memory around the variant was overwritten");
            bool vl = v.valueless_by_exception();
            if (vl != m.valueless) viol("invariant", "state", who + (vl ? "is valueless" : "is not valueless") + ", expected " + show(m));
            if (vl != (v.index() == xtl::variant_npos)) viol("invariant", "index", who + "valueless_by_exception() and index() == variant_npos disagree");
            if (!m.valueless)
            {
                MW o = observe(v);
                if (!o.same(m)) viol("invariant", "state", who + "holds " + show(o) + ", expected " + show(m));
            }
            bool last = !m.valueless && m.index == 255;
            if ((xtl::get_if<255>(&v) != nullptr) != last || xtl::holds_alternative<Last>(v) != last) viol("invariant", "get_if", who + "get_if<255> / holds_alternative disagree with " + show(m));
            bool first = !m.valueless && m.index == 0;
            if ((xtl::get_if<0>(&v) != nullptr) != first) viol("invariant", "get_if", who + "get_if<0> disagrees with " + show(m));
            if (last && !registry().is_live(xtl::get_if<255>(&v), 9)) viol("lifetime", "contained-not-live", who + "the contained object is not a live object");
            run.dig(m.valueless ? 999 : m.index); run.dig(m.id);
        }
        void check_all()
        {
            lifetimes();
            size_t expect = 0;
            for (int i = 0; i < 2; ++i) { check_slot(i); if (!model[i].valueless && model[i].index == 255) ++expect; }
            if (registry().live.size() != expect)
                viol("lifetime", "population", std::to_string(registry().live.size()) + " tracked objects are live, " + std::to_string(expect) + " are held by the variants");
        }
        void settle(int i, const MW& pre, const MW* requested)
        {
            Suspend s;
            MW o = slot[i].get().valueless_by_exception() ? [] { MW m; m.valueless = true; m.index = xtl::variant_npos; return m; }() : observe(slot[i].get());
            bool ok = o.valueless || o.same(pre) || (requested && o.same(*requested));
            if (!ok) viol("model", "after-throw", "variant " + std::to_string(i) + " is " + show(o) + " after a failed call; before it was " + show(pre));
            if (o.valueless) SIM_PROBE("wide_valueless_reached");
            model[i] = o;
        }
        struct Scope
        {
            std::string qual;
            StepScope sc;
            Scope(WideWorld& w, const Step& st, const char* family, const std::string& variant)
                : qual(variant + (st.fkind ? ",fault" : "")), sc(w.run, st, qual.c_str())
            {
                w.tail = std::string(family) + "/" + variant;
                uint64_t a = 0;
                for (int i = 0; i < 2; ++i) a = a * 7 + (w.model[i].valueless ? 6 : (w.model[i].index == 255 ? 5 : w.model[i].index % 5));
                w.run.abstract(mix(strhash("wide") ^ strhash(family), strhash(variant.c_str()), a * 2 + (st.fkind ? 1 : 0)));
                w.run.dig(strhash(family) ^ strhash(variant.c_str()));
            }
        };
        static std::string aname(size_t i) { return i == 255 ? "tracked_255" : "tag_" + std::to_string(i); }
        static std::string mname(const MW& m) { return m.valueless ? "valueless" : aname(m.index); }

        template <size_t I> void emplace_tag(W256& v, uint64_t id) { v.template emplace<I>(WTag<static_cast<int>(I)>{static_cast<int>(id)}); }
        void do_emplace(W256& v, size_t idx, uint64_t id)
        {
            switch (idx)
            {
            case 0: emplace_tag<0>(v, id); break;
            case 127: emplace_tag<127>(v, id); break;
            case 254: emplace_tag<254>(v, id); break;
            default: v.template emplace<255>(id); break;
            }
        }
        void op_emplace(const Step& st)
        {
            int t = st.actor % 2;
            size_t idx = picks[st.a % NPICK];
            Scope sc(*this, st, "emplace_index", mname(model[t]) + "_to_" + aname(idx));
            MW pre = model[t];
            uint64_t id = next_id++;
            MW want; want.index = idx; want.id = id;
            bool threw = false;
            try { do_emplace(slot[t].get(), idx, id); }
            catch (const Injected&) { threw = true; }
            if (threw) settle(t, pre, &want); else model[t] = want;
            if (!threw && idx == 255) SIM_PROBE("wide_last_alternative_held");
            ++run.changing;
            check_all();
        }
        void op_construct(const Step& st)
        {
            int t = st.actor % 2, src = 1 - t;
            unsigned v = static_cast<unsigned>(st.d % 3);
            static const char* const vn[] = {"default", "in_place_last", "copy"};
            Scope sc(*this, st, "construct", std::string(vn[v]) + (v >= 2 ? "_from_" + mname(model[src]) : std::string()));
            MW pre_src = model[src];
            uint64_t id = next_id++;
            { Suspend s; slot[t].get().~W256(); }
            slot[t].prepare(env, env.next());
            W256* p = slot[t].ptr();
            MW want;
            bool threw = false;
            try
            {
                if (v == 0) new (p) W256();
                else if (v == 1) { new (p) W256(mpark::in_place_index_t<255>{}, id); want.index = 255; want.id = id; }
                else { new (p) W256(static_cast<const W256&>(slot[src].get())); want = pre_src; }
            }
            catch (const Injected&) { threw = true; }
            if (threw) { Suspend s; new (p) W256(); model[t] = MW(); }
            else model[t] = want;
            if (v >= 2) settle(src, pre_src, nullptr);
            if (v >= 2 && !model[src].same(pre_src)) viol("model", "source-changed", "constructing from variant " + std::to_string(src) + " changed it to " + show(model[src]));
            ++run.changing;
            check_all();
        }
        void op_assign(const Step& st)
        {
            int t = st.actor % 2, src = (st.c & 1) ? t : 1 - t;
            Scope sc(*this, st, "copy_assign", mname(model[t]) + "_from_" + (src == t ? std::string("self") : mname(model[src])));
            MW pre = model[t], pre_src = model[src];
            bool threw = false;
            try
            {
                slot[t].get() = static_cast<const W256&>(slot[src].get());
            }
            catch (const Injected&) { threw = true; }
            if (threw) settle(t, pre, &pre_src);
            else if (src != t) model[t] = pre_src;
            if (src != t)
            {
                settle(src, pre_src, nullptr);
                if (!model[src].same(pre_src)) viol("model", "source-changed", "assignment changed its source to " + show(model[src]));
            }
            ++run.changing;
            check_all();
        }
        void step(const Step& st)
        {
            switch (st.op)
            {
            case W_construct: op_construct(st); break;
            case W_copy_assign: op_assign(st); break;
            case W_emplace: op_emplace(st); break;
            default: { Scope sc(*this, st, "visit1", "all"); check_all(); } break;
            }
        }
        void run_all()
        {
            check_all();
            for (const Step& st : plan.steps) as_caller(run, st, [&] { step(st); });
            tail = "teardown/-";
            teardown();
            lifetimes();
            if (!registry().live.empty()) viol("lifetime", "leak", std::to_string(registry().live.size()) + " contained objects were never destroyed");
        }
    };

    void gen_wide(Plan& plan, Rng& cfg, Rng& pr, int)
    {
        size_t n = 1;
        while (n < 12 && cfg.below(6) != 0) ++n;
        plan.params.push_back(n);
        unsigned fault_pct = static_cast<unsigned>(cfg.below(3)) * 15;
        plan.params.push_back(fault_pct);
        const int ops[] = {W_emplace, W_emplace, W_emplace, W_copy_assign, W_copy_assign, W_construct, W_construct, W_visit};
        for (size_t i = 0; i < n; ++i)
        {
            Step s;
            s.op = ops[pr.below(sizeof(ops) / sizeof(ops[0]))];
            s.actor = static_cast<int>(pr.below(2));
            s.a = pr.next() >> 40; s.b = pr.next() >> 40; s.c = pr.next() >> 40; s.d = pr.next() >> 44;
            if (s.op != W_visit && pr.below(100) < fault_pct) { s.fkind = FK_THROW; s.fk = pr.below(2); }
            plan.steps.push_back(s);
        }
    }
    void exec_wide(const Plan& plan, Run& run)
    {
        std::unique_ptr<WideWorld> w(new WideWorld(run, plan));
        try { w->run_all(); }
        catch (...) { Suspend s; clear_pending(); try { w->teardown(); } catch (...) {} clear_pending(); throw; }
    }
    RegisterCfg reg_wide("wide_256_alternatives", gen_wide, exec_wide, 1, false);
}
