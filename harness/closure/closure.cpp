// harness `closure` — C07 (dynamic half): wrappers built from an lvalue alias it (read and write through, no copy,
// never rebind), wrappers built from a temporary own an independent value that survives the temporary.
// Actors: an owner writing the referents directly and up to four wrapper handles.
#define SIMKIT_MAIN
#include "../../sim/simkit.hpp"

#include <array>
#include <complex>
#include <memory>
#include <typeinfo>
#include <vector>

#include "xtl/xclosure.hpp"
#include "xtl/xproxy_wrapper.hpp"
#include "xtl/xoptional.hpp"
#include "xtl/xmasked_value.hpp"
#include "xtl/xcomplex.hpp"
#include "xtl/xsequence.hpp"
#include "xtl/xdynamic_bitset.hpp"
#include "xtl/xoptional_sequence.hpp"

#define CLOSURE_OPS(X) X(build) X(write) X(owner_write) X(copy) X(assign) X(move_assign) X(swap) X(destroy) X(read) X(forward_sequence) X(bit_reference) X(cross_closure) X(element_proxy)

namespace clops
{
#define X(n) OP_##n,
    enum Op { CLOSURE_OPS(X) OP_COUNT };
#undef X
}

namespace sim
{
    const char* const harness_name = "closure";
    const bool caller_threads_enabled = true;
#define X(n) #n,
    const char* const op_names[] = {CLOSURE_OPS(X)};
#undef X
    const int op_count = clops::OP_COUNT;
    const char* const fault_names[] = {"none", "throw", "alloc", "stream", "syscall", nullptr};
    bool workload_admits(const std::string&, const std::string&) { return true; }
    int enumerate_kind() { return 0; }
}

namespace
{
    using namespace sim;
    using namespace clops;

    using P = Tracked<21, 8, true, false>;     // copies and moves are counted by the registry

    // a payload whose assignment can be made to throw
    struct ThrowsOnAssign
    {
        int v;
        static bool armed;
        explicit ThrowsOnAssign(int x) : v(x) {}
        ThrowsOnAssign(const ThrowsOnAssign&) = default;
        ThrowsOnAssign& operator=(const ThrowsOnAssign& o) { if (armed) throw Injected(); v = o.v; return *this; }
    };
    bool ThrowsOnAssign::armed = false;

    struct Referent
    {
        P obj;
        bool flag = true;
        double re = 0, im = 0;
        int iv = 0;
        explicit Referent(uint64_t v) : obj(v) { set(v); }
        void set(uint64_t v) { obj.id = v; re = static_cast<double>(v); im = -static_cast<double>(v); iv = static_cast<int>(v); }
    };

    // ---- type-erased wrapper handles -----------------------------------------------------------------
    struct H
    {
        const char* kind = "?";
        int ref = -1;               // referent designated (reference closures) or -1 (owns a value)
        uint64_t owned = 0;         // model of the owned value
        bool writable = true;
        const void* dead = nullptr; // where the temporary it was built from used to live
        unsigned factory = 0, cat = 0;
        const void* flag_addr = nullptr;   // reference closures over (value, flag): where the caller's flag lives
        const void* value_addr = nullptr;  // reference closures: the referent (what every accessor form must designate)
        virtual ~H() {}
        virtual int forms() const { return 3; }
        virtual uint64_t read(int form) = 0;           // 0: lvalue accessor, 1: const accessor, 2: rvalue accessor, 3..: see each handle
        virtual void write(uint64_t, int) {}
        virtual const void* addr() = 0;                // the object the wrapper designates / owns
        virtual const void* addr_amp() { return addr(); }   // the same, reached through operator& / operator->
        virtual H* clone() = 0;
        virtual bool assign_from(H&, bool) { return false; }
        virtual bool swap_with(H&) { return false; }
    };

    // result codes of read() besides a value
    const uint64_t DANGLING = ~uint64_t(0) - 1;    // an rvalue accessor returned a reference into the wrapper it was called on
    const uint64_t MISPLACED = ~uint64_t(0) - 2;   // an accessor designates another object than the member accessor does
    const uint64_t BADFLAG = ~uint64_t(0) - 3;     // a flag accessor reads false or designates another flag
    const uint64_t MOVED_OUT = ~uint64_t(0) - 4;   // a read left the wrapper's own value moved-from

    inline uint64_t value_of(const P& p) { return p.id; }
    inline uint64_t value_of(double d) { return static_cast<uint64_t>(d < 0 ? -d : d); }
    inline uint64_t value_of(bool b) { return b ? 1 : 0; }
    inline uint64_t value_of(const xtl::xclosure_wrapper<P&>& w) { return w.get().id; }

    // operator& applied to a temporary wrapper yields an OWNING pointer object: it must stay valid after the temporary died
    template <class W, class G>
    uint64_t amp_after_death(const W& src, G get)
    {
        std::unique_ptr<W> t(new W(src));
        const char* lo = reinterpret_cast<const char*>(t.get());
        const char* hi = lo + sizeof(W);
        auto ptr = &std::move(*t);
        const char* pp = reinterpret_cast<const char*>(std::addressof(*ptr));
        bool inside = pp >= lo && pp < hi;
        t.reset();
        if (inside) return DANGLING;
        return get(*ptr);
    }

    // Applies an rvalue accessor to a temporary copy of the wrapper that lives on the heap, ends the temporary's
    // lifetime (the injected fault), and only then reads the result: a value closure must have handed out an
    // independent object, a reference closure a reference to the referent - never a reference into the dead wrapper.
    // `must_be` (optional): for a reference closure the accessor has to hand out a reference to exactly this object
    // (the referent / the caller's flag) - a copy of it would read the same value and still break aliasing.
    template <class W, class F>
    uint64_t after_death(const W& src, F f, const void* must_be = nullptr)
    {
        std::unique_ptr<W> t(new W(src));
        const char* lo = reinterpret_cast<const char*>(t.get());
        const char* hi = lo + sizeof(W);
        using R = decltype(f(std::move(*t)));
        auto&& r = f(std::move(*t));
        const char* pr = reinterpret_cast<const char*>(&r);
        bool inside = pr >= lo && pr < hi;
        t.reset();
        if (inside) return DANGLING;
        if (must_be && (!std::is_reference<R>::value || static_cast<const void*>(pr) != must_be)) return MISPLACED;
        return value_of(r);
    }

    template <class W> struct HW : H
    {
        std::unique_ptr<W> w;
        template <class... A> explicit HW(A&&... a) : w(new W(std::forward<A>(a)...)) {}
    };

    // xclosure_wrapper<CT>
    template <class CT> struct HClosure : HW<xtl::xclosure_wrapper<CT>>
    {
        using W = xtl::xclosure_wrapper<CT>;
        using HW<W>::HW;
        static constexpr bool is_const = std::is_const<std::remove_reference_t<CT>>::value;
        uint64_t read(int form) override
        {
            if (form == 0) return this->w->get().id;
            if (form == 1) return static_cast<const W&>(*this->w).get().id;
            if (form == 3)
            {
                // implicit conversion of the (lvalue) wrapper to its closure type: a read, it must leave the wrapper's value intact
                Suspend s;
                const P& y = static_cast<typename W::closure_type>(*this->w);
                uint64_t id = y.id;
                P copy = static_cast<typename W::closure_type>(*this->w);
                if (copy.id != id) return MISPLACED;
                if (static_cast<const W&>(*this->w).get().moved) return MOVED_OUT;
                return id;
            }
            return after_death(static_cast<const W&>(*this->w), [](W&& x) -> decltype(auto) { return std::move(x).get(); }, this->value_addr);
        }
        int forms() const override { return 4; }
        void write(uint64_t v, int form) override { do_write(v, form, std::integral_constant<bool, !is_const>()); }
        void do_write(uint64_t v, int form, std::true_type) { Suspend s; P val(v); if (form == 0) *this->w = val; else if (form == 1) this->w->get() = val; else *this->w = std::move(val); }
        void do_write(uint64_t, int, std::false_type) {}
        const void* addr() override { return &static_cast<const W&>(*this->w).get(); }
        const void* addr_amp() override { return &(*this->w); }
        H* clone() override { auto* h = new HClosure<CT>(static_cast<const W&>(*this->w)); copy_meta(*h); return h; }
        void copy_meta(H& h) { h.kind = this->kind; h.ref = this->ref; h.owned = this->owned; h.writable = this->writable; h.flag_addr = this->flag_addr; h.value_addr = this->value_addr; }
        bool assign_from(H& o, bool move) override { return do_assign(o, move, std::integral_constant<bool, !is_const>()); }
        bool do_assign(H& o, bool move, std::true_type)
        {
            auto* q = dynamic_cast<HClosure<CT>*>(&o);
            if (!q) return false;
            if (move) *this->w = std::move(*q->w); else *this->w = static_cast<const W&>(*q->w);
            return true;
        }
        bool do_assign(H&, bool, std::false_type) { return false; }
        bool swap_with(H& o) override { return do_swap(o, std::integral_constant<bool, !is_const>()); }
        bool do_swap(H& o, std::true_type)
        {
            auto* q = dynamic_cast<HClosure<CT>*>(&o);
            if (!q) return false;
            using std::swap;
            swap(*this->w, *q->w);
            return true;
        }
        bool do_swap(H&, std::false_type) { return false; }
    };

    // closure(closure(x)): an owning wrapper around a reference wrapper - designates x through two levels, and its swap
    // and assignment must reach x through the inner wrapper's own swap/assignment
    struct HNested : HW<xtl::xclosure_wrapper<xtl::xclosure_wrapper<P&>>>
    {
        using W = xtl::xclosure_wrapper<xtl::xclosure_wrapper<P&>>;
        using HW<W>::HW;
        uint64_t read(int form) override
        {
            if (form == 0) return w->get().get().id;
            if (form == 1) return static_cast<const W&>(*w).get().get().id;
            return after_death(static_cast<const W&>(*w), [](W&& x) -> decltype(auto) { return std::move(x).get(); });
        }
        void write(uint64_t v, int form) override { Suspend s; P val(v); if (form == 0) w->get() = val; else w->get().get() = val; }
        const void* addr() override { return &static_cast<const W&>(*w).get().get(); }
        const void* addr_amp() override { return std::addressof(*(&w->get())); }
        H* clone() override { auto* h = new HNested(static_cast<const W&>(*w)); h->kind = kind; h->ref = ref; h->owned = owned; h->writable = writable; h->flag_addr = flag_addr; h->value_addr = value_addr; return h; }
        bool assign_from(H& o, bool move) override
        {
            auto* q = dynamic_cast<HNested*>(&o);
            if (!q) return false;
            if (move) *w = std::move(*q->w); else *w = static_cast<const W&>(*q->w);
            return true;
        }
        bool swap_with(H& o) override
        {
            auto* q = dynamic_cast<HNested*>(&o);
            if (!q) return false;
            using std::swap;
            swap(*w, *q->w);
            return true;
        }
    };

    // xclosure_pointer<CT>
    template <class CT> struct HPointer : HW<xtl::xclosure_pointer<CT>>
    {
        using W = xtl::xclosure_pointer<CT>;
        using HW<W>::HW;
        static constexpr bool is_const = std::is_const<std::remove_reference_t<CT>>::value;
        uint64_t read(int form) override
        {
            if (form == 0) return (**this->w).id;
            if (form == 1) return (*static_cast<const W&>(*this->w)).id;
            return (*this->w)->id;
        }
        void write(uint64_t v, int) override { do_write(v, std::integral_constant<bool, !is_const>()); }
        void do_write(uint64_t v, std::true_type) { Suspend s; P val(v); **this->w = val; }
        void do_write(uint64_t, std::false_type) {}
        const void* addr() override { return &(*static_cast<const W&>(*this->w)); }
        const void* addr_amp() override { return this->w->operator->(); }
        H* clone() override { auto* h = new HPointer<CT>(static_cast<const W&>(*this->w)); h->kind = this->kind; h->ref = this->ref; h->owned = this->owned; h->writable = this->writable; h->flag_addr = this->flag_addr; h->value_addr = this->value_addr; return h; }
    };

    // xoptional<CT, CB>
    template <class CT, class CB> struct HOptional : HW<xtl::xoptional<CT, CB>>
    {
        using W = xtl::xoptional<CT, CB>;
        using HW<W>::HW;
        static constexpr bool is_ref = std::is_reference<CT>::value || std::is_reference<CB>::value;
        uint64_t read(int form) override
        {
            if (!static_cast<bool>(static_cast<const W&>(*this->w).has_value())) return ~uint64_t(0);
            const W& cw = *this->w;
            switch (form)
            {
            case 0: return this->w->value().id;
            case 1: return cw.value().id;
            case 2: return after_death(cw, [](W&& x) -> decltype(auto) { return std::move(x).value(); }, this->value_addr);
            case 3: return after_death(cw, [](W&& x) -> decltype(auto) { return static_cast<const W&&>(x).value(); }, this->value_addr);
            case 4: { auto& r = xtl::value(*this->w); return &r == &this->w->value() ? r.id : MISPLACED; }         // free functions
            case 5: { auto& r = xtl::value(cw); return &r == &cw.value() ? r.id : MISPLACED; }
            case 6: return after_death(cw, [](W&& x) -> decltype(auto) { return xtl::value(std::move(x)); }, this->value_addr);
            case 8: return amp_after_death(cw, [](const W& x) { return x.value().id; });
            case 9:
            {
                // value_or on a temporary wrapper hands out a copy: it never moves out of what the wrapper designates or owns
                Suspend s;
                W t(cw);
                P dflt(uint64_t(0));
                bool was_moved = cw.value().moved;       // (a moving assignment may legitimately have left it so)
                uint64_t got = std::move(t).value_or(dflt).id;
                if (cw.value().moved && !was_moved) return MOVED_OUT;
                uint64_t got2 = static_cast<const W&>(cw).value_or(dflt).id;
                return got == got2 ? got : ~uint64_t(0);
            }
            default:
            {
                // the flag through every accessor: true, and for a reference closure the caller's own flag
                auto& f0 = this->w->has_value(); auto& f1 = cw.has_value();
                auto& f2 = xtl::has_value(*this->w); auto& f3 = xtl::has_value(cw);
                if (!f0 || !f1 || !f2 || !f3) return BADFLAG;
                if (&f1 != &f0 || &f2 != &f0 || &f3 != &f0) return MISPLACED;
                if (this->flag_addr && static_cast<const void*>(&f0) != this->flag_addr) return MISPLACED;
                for (uint64_t c : {after_death(cw, [](W&& x) -> decltype(auto) { return std::move(x).has_value(); }, this->flag_addr),
                                   after_death(cw, [](W&& x) -> decltype(auto) { return static_cast<const W&&>(x).has_value(); }, this->flag_addr),
                                   after_death(cw, [](W&& x) -> decltype(auto) { return xtl::has_value(std::move(x)); }, this->flag_addr)})
                    if (c != 1) return c >= BADFLAG ? c : BADFLAG;
                return cw.value().id;
            }
            }
        }
        int forms() const override { return 10; }
        void write(uint64_t v, int form) override { Suspend s; P val(v); if (form == 0) *this->w = val; else if (form == 1) this->w->value() = val; else xtl::value(*this->w) = val; }
        const void* addr() override { return &static_cast<const W&>(*this->w).value(); }
        const void* addr_amp() override
        {
            auto p = &(*this->w);                                   // operator&() &
            auto cp = &static_cast<const W&>(*this->w);            // operator&() const &
            const void* a = &(*p).value();
            const void* b = &(*cp).value();
            return a == b ? a : nullptr;
        }
        H* clone() override { auto* h = new HOptional<CT, CB>(static_cast<const W&>(*this->w)); h->kind = this->kind; h->ref = this->ref; h->owned = this->owned; h->writable = this->writable; h->flag_addr = this->flag_addr; h->value_addr = this->value_addr; return h; }
        bool assign_from(H& o, bool move) override { return do_assign(o, move, std::integral_constant<bool, !is_ref>()); }
        bool do_assign(H& o, bool move, std::true_type)
        {
            auto* q = dynamic_cast<HOptional<CT, CB>*>(&o);
            if (!q) return false;
            if (move) *this->w = std::move(*q->w); else *this->w = static_cast<const W&>(*q->w);
            return true;
        }
        bool do_assign(H&, bool, std::false_type) { return false; }   // proxy-to-proxy assignment does not compile
        bool swap_with(H& o) override
        {
            auto* q = dynamic_cast<HOptional<CT, CB>*>(&o);
            if (!q) return false;
            this->w->swap(*q->w);
            return true;
        }
    };

    // xmasked_value<T, B>
    template <class T, class B> struct HMasked : HW<xtl::xmasked_value<T, B>>
    {
        using W = xtl::xmasked_value<T, B>;
        using HW<W>::HW;
        uint64_t read(int form) override
        {
            const W& cw = *this->w;
            switch (form)
            {
            case 0: return this->w->value().id;
            case 1: return cw.value().id;
            case 2: return after_death(cw, [](W&& x) -> decltype(auto) { return std::move(x).value(); }, this->value_addr);
            case 3: return after_death(cw, [](W&& x) -> decltype(auto) { return static_cast<const W&&>(x).value(); }, this->value_addr);
            default:
            {
                auto& f0 = this->w->visible(); auto& f1 = cw.visible();
                if (!f0 || !f1) return BADFLAG;
                if (&f1 != &f0) return MISPLACED;
                if (this->flag_addr && static_cast<const void*>(&f0) != this->flag_addr) return MISPLACED;
                for (uint64_t c : {after_death(cw, [](W&& x) -> decltype(auto) { return std::move(x).visible(); }, this->flag_addr),
                                   after_death(cw, [](W&& x) -> decltype(auto) { return static_cast<const W&&>(x).visible(); }, this->flag_addr)})
                    if (c != 1) return c >= BADFLAG ? c : BADFLAG;
                return cw.value().id;
            }
            }
        }
        int forms() const override { return 5; }
        void write(uint64_t v, int form) override { Suspend s; P val(v); if (form == 0) *this->w = val; else this->w->value() = val; }
        const void* addr() override { return &static_cast<const W&>(*this->w).value(); }
        H* clone() override { auto* h = new HMasked<T, B>(static_cast<const W&>(*this->w)); h->kind = this->kind; h->ref = this->ref; h->owned = this->owned; h->writable = this->writable; h->flag_addr = this->flag_addr; h->value_addr = this->value_addr; return h; }
    };

    // xproxy_wrapper<P> for a class proxy: the wrapper *is* the proxy
    struct HProxy : HW<xtl::xproxy_wrapper<P>>
    {
        using W = xtl::xproxy_wrapper<P>;
        using HW<W>::HW;
        uint64_t read(int form) override
        {
            if (form == 1) return static_cast<const P&>(*w).id;
            if (form == 3) return amp_after_death(static_cast<const W&>(*w), [](const auto& x) { return static_cast<const P&>(x).id; });
            return static_cast<P&>(*w).id;
        }
        int forms() const override { return 4; }
        void write(uint64_t v, int) override { static_cast<P&>(*w).id = v; }
        const void* addr() override { return static_cast<const P*>(w.get()); }
        const void* addr_amp() override { auto p = &(*w); return static_cast<const P*>(&(*p)); }
        H* clone() override { Suspend s; auto* h = new HProxy(P(static_cast<const P&>(*w))); h->kind = kind; h->ref = ref; h->owned = owned; h->writable = writable; return h; }
    };

    // proxy_wrapper(x) for an lvalue (or const lvalue) of CLASS type: whatever type the factory hands out, it has to stand
    // for x itself - everything goes through the conversion to (const) P&, so the holder does not depend on the wrapper type
    template <class W, bool CONST> struct HClassProxy : HW<W>
    {
        using HW<W>::HW;
        uint64_t read(int) override { return static_cast<const P&>(static_cast<const W&>(*this->w)).id; }
        int forms() const override { return 2; }
        void write(uint64_t v, int) override { do_write(v, std::integral_constant<bool, !CONST>()); }
        void do_write(uint64_t v, std::true_type) { static_cast<P&>(*this->w).id = v; }
        void do_write(uint64_t, std::false_type) {}
        const void* addr() override { return std::addressof(static_cast<const P&>(static_cast<const W&>(*this->w))); }
        const void* addr_amp() override { return addr(); }
        H* clone() override { auto* h = new HClassProxy<W, CONST>(static_cast<const W&>(*this->w)); h->kind = this->kind; h->ref = this->ref; h->owned = this->owned; h->writable = this->writable; h->flag_addr = this->flag_addr; h->value_addr = this->value_addr; return h; }
    };
    template <bool CONST, class W> H* make_class_proxy(W&& w) { return new HClassProxy<std::decay_t<W>, CONST>(std::forward<W>(w)); }

    // xcomplex<CTR, CTI>
    template <class CT> struct HComplex : HW<xtl::xcomplex<CT, CT>>
    {
        using W = xtl::xcomplex<CT, CT>;
        using HW<W>::HW;
        static uint64_t enc(double re, double im) { return (im == -re) ? static_cast<uint64_t>(re) : ~uint64_t(0); }
        uint64_t read(int form) override
        {
            const W& cw = *this->w;
            auto pair = [](uint64_t re, uint64_t im) { return (re >= DANGLING - 2 || im >= DANGLING - 2) ? std::max(re, im) : (re == im ? re : ~uint64_t(0)); };
            switch (form)
            {
            case 0: return enc(this->w->real(), this->w->imag());
            case 1: return enc(cw.real(), cw.imag());
            case 2: return pair(after_death(cw, [](W&& x) -> decltype(auto) { return std::move(x).real(); }),
                                after_death(cw, [](W&& x) -> decltype(auto) { return std::move(x).imag(); }));
            case 3: return pair(after_death(cw, [](W&& x) -> decltype(auto) { return static_cast<const W&&>(x).real(); }),
                                after_death(cw, [](W&& x) -> decltype(auto) { return static_cast<const W&&>(x).imag(); }));
            case 4:     // free functions on an lvalue and a const lvalue: the parts themselves
                if (&xtl::real(*this->w) != &this->w->real() || &xtl::imag(*this->w) != &this->w->imag()) return MISPLACED;
                if (&xtl::real(cw) != &cw.real() || &xtl::imag(cw) != &cw.imag()) return MISPLACED;
                return enc(xtl::real(cw), xtl::imag(cw));
            case 5: return pair(after_death(cw, [](W&& x) -> decltype(auto) { return xtl::real(std::move(x)); }),
                                after_death(cw, [](W&& x) -> decltype(auto) { return xtl::imag(std::move(x)); }));
            default: return amp_after_death(cw, [](const W& x) { return enc(x.real(), x.imag()); });
            }
        }
        int forms() const override { return 7; }
        void write(uint64_t v, int form) override
        {
            if (form == 0) { this->w->real() = static_cast<double>(v); this->w->imag() = -static_cast<double>(v); }
            else if (form == 2)
            {
                // complex = scalar, the scalar being (a reference to) the wrapper's own imaginary part: (re, im) becomes (im, 0)
                double old_im = this->w->imag();
                *this->w = this->w->imag();
                if (!(this->w->real() == old_im && this->w->imag() == 0))
                    defer("model", "C07/write-through/complex_assigned_its_own_imaginary_part", "z = z.imag() gave (" + std::to_string(this->w->real()) + ", " + std::to_string(this->w->imag()) + "), expected (" + std::to_string(old_im) + ", 0)");
                *this->w = static_cast<double>(v); this->w->imag() = -static_cast<double>(v);
            }
            else { *this->w = static_cast<double>(v); this->w->imag() = -static_cast<double>(v); }   // complex = real sets imag to 0 first
        }
        const void* addr() override { return &static_cast<const W&>(*this->w).real(); }
        const void* addr_amp() override
        {
            auto p = &(*this->w);                                   // operator&() &
            auto cp = &static_cast<const W&>(*this->w);            // operator&() const &
            const void* a = &(*p).real();
            const void* b = &(*cp).real();
            return a == b ? a : nullptr;
        }
        H* clone() override { auto* h = new HComplex<CT>(static_cast<const W&>(*this->w)); h->kind = this->kind; h->ref = this->ref; h->owned = this->owned; h->writable = this->writable; h->flag_addr = this->flag_addr; h->value_addr = this->value_addr; return h; }
    };

    // xclosure_wrapper<int&> through proxy_wrapper(int&)
    struct HIntProxy : HW<xtl::xproxy_wrapper<int&>>
    {
        using W = xtl::xproxy_wrapper<int&>;
        using HW<W>::HW;
        uint64_t read(int form) override { if (form == 1) return static_cast<uint64_t>(static_cast<const W&>(*w).get()); return static_cast<uint64_t>(w->get()); }
        void write(uint64_t v, int form) override { if (form == 0) *w = static_cast<int>(v); else w->get() = static_cast<int>(v); }
        const void* addr() override { return &static_cast<const W&>(*w).get(); }
        const void* addr_amp() override { return &(*w); }
        H* clone() override { auto* h = new HIntProxy(static_cast<const W&>(*w)); h->kind = kind; h->ref = ref; h->owned = owned; h->writable = writable; return h; }
    };

    // ---- static half, evaluated once as a precondition of the model (not simulation) -------------------
    template <class A, class B> constexpr bool same() { return std::is_same<A, B>::value; }
    const char* static_table()
    {
        using xtl::closure_type_t; using xtl::const_closure_type_t; using xtl::ptr_closure_type_t; using xtl::const_ptr_closure_type_t;
        if (!same<closure_type_t<P&>, P&>()) return "closure_type/lvalue";
        if (!same<closure_type_t<const P&>, const P&>()) return "closure_type/const-lvalue";
        if (std::is_reference<closure_type_t<P>>::value || !same<std::decay_t<closure_type_t<P>>, P>()) return "closure_type/prvalue";
        if (std::is_reference<closure_type_t<P&&>>::value || !same<std::decay_t<closure_type_t<P&&>>, P>()) return "closure_type/xvalue";
        if (std::is_reference<closure_type_t<const P&&>>::value || !same<std::decay_t<closure_type_t<const P&&>>, P>()) return "closure_type/const-xvalue";
        if (!same<const_closure_type_t<P&>, const P&>()) return "const_closure_type/lvalue";
        if (!same<const_closure_type_t<const P&>, const P&>()) return "const_closure_type/const-lvalue";
        if (std::is_reference<const_closure_type_t<P&&>>::value || !same<std::decay_t<const_closure_type_t<P&&>>, P>()) return "const_closure_type/xvalue";
        if (!same<ptr_closure_type_t<P&>, P*>()) return "ptr_closure_type/lvalue";
        if (!same<ptr_closure_type_t<const P&>, const P*>()) return "ptr_closure_type/const-lvalue";
        if (std::is_pointer<ptr_closure_type_t<P&&>>::value || !same<std::decay_t<ptr_closure_type_t<P&&>>, P>()) return "ptr_closure_type/xvalue";
        if (!same<const_ptr_closure_type_t<P&>, const P*>()) return "const_ptr_closure_type/lvalue";
        if (std::is_pointer<const_ptr_closure_type_t<P&&>>::value || !same<std::decay_t<const_ptr_closure_type_t<P&&>>, P>()) return "const_ptr_closure_type/xvalue";
        return nullptr;
    }

    struct World
    {
        Run& run;
        const Plan& plan;
        Rng env;
        std::unique_ptr<Referent> refs[3];
        uint64_t val[3];
        std::unique_ptr<H> h[4];
        std::string tail;
        uint64_t next = 1000;

        World(Run& r, const Plan& p) : run(r), plan(p), env(stream(p.seed, TAG_ENV))
        {
            registry().reset();
            registry().sigprefix = "C07";
            tail = "initial/-";
            for (int i = 0; i < 3; ++i) { val[i] = 10 + static_cast<uint64_t>(i); refs[i].reset(new Referent(val[i])); }
        }
        void teardown() { for (auto& x : h) x.reset(); for (auto& x : refs) x.reset(); }
        [[noreturn]] void viol(const char* cls, const char* oracle, const std::string& msg) { fail(cls, std::string("C07/") + oracle + "/" + tail, msg); }
        void lifetimes() { try { raise_pending(); } catch (Violation& v) { v.sig += "/" + tail; throw; } }
        uint64_t fresh() { return next++; }
        uint64_t expected(const H& x) const { return x.ref >= 0 ? val[x.ref] : x.owned; }
        const void* payload_addr(const H& x, int r) const
        {
            if (std::strncmp(x.kind, "complex", 7) == 0) return &refs[r]->re;
            if (std::strncmp(x.kind, "int_proxy", 9) == 0) return &refs[r]->iv;
            return &refs[r]->obj;
        }

        // the field of referent r that a wrapper of this kind designates
        uint64_t field(const H& x, int r) const
        {
            const Referent& f = *refs[r];
            if (std::strncmp(x.kind, "complex", 7) == 0) return f.im == -f.re ? static_cast<uint64_t>(f.re) : ~uint64_t(0);
            if (std::strncmp(x.kind, "int_proxy", 9) == 0) return static_cast<uint64_t>(f.iv);
            return f.obj.id;
        }
        // a mutation through wrapper x is expected to have produced value v in what it designates
        void commit(H& x, uint64_t v, const char* what)
        {
            if (x.ref >= 0)
            {
                uint64_t got = field(x, x.ref);
                if (got != v) viol("model", "write-through", std::string(what) + " through a wrapper built from an lvalue did not reach the referent: it holds " + std::to_string(static_cast<long long>(got)) + ", expected " + std::to_string(v));
                val[x.ref] = v;
                refs[x.ref]->set(v);
            }
            else x.owned = v;
        }

        struct Scope
        {
            StepScope sc;
            Scope(World& w, const Step& st, const char* family, const std::string& variant) : sc(w.run, st, variant.c_str())
            {
                w.tail = std::string(family) + "/" + variant;
                w.run.abstract(mix(strhash(family), strhash(variant.c_str()), 0));
                w.run.dig(strhash(family) ^ strhash(variant.c_str()));
            }
        };

        void check_handle(int i)
        {
            H& x = *h[i];
            std::string who = std::string("wrapper ") + std::to_string(i) + " (" + x.kind + "): ";
            uint64_t want = expected(x);
            for (int form = 0; form < x.forms(); ++form)
            {
                uint64_t got = x.read(form);
                if (got == DANGLING) viol("lifetime", "rvalue-accessor-dangling", who + "accessor form " + std::to_string(form) + " applied to a temporary wrapper returned a reference into that wrapper (dangling once the temporary is gone)");
                if (got == MISPLACED) viol("model", "accessor-alias", who + "accessor form " + std::to_string(form) + " designates another object than the member accessor / the caller's flag");
                if (got == BADFLAG) viol("model", "flag", who + "a flag accessor (form " + std::to_string(form) + ") does not read true");
                if (got == MOVED_OUT) viol("model", "read-moved-out", who + "reading the wrapper through accessor form " + std::to_string(form) + " moved its value out");
                if (got != want) viol("model", "read", who + "reads " + std::to_string(static_cast<long long>(got)) + " through accessor form " + std::to_string(form) + ", expected " + std::to_string(want) + (x.ref >= 0 ? " (value of its referent)" : " (its own value)"));
            }
            const void* a = x.addr();
            if (x.ref >= 0)
            {
                if (a != payload_addr(x, x.ref)) viol("model", "alias", who + "does not designate the object it was built from");
            }
            else
            {
                for (int r = 0; r < 3; ++r) if (a == payload_addr(x, r)) viol("model", "own", who + "built from a temporary designates a referent");
                if (x.dead && a == x.dead) viol("model", "own", who + "designates the dead temporary it was built from");
            }
            if (x.addr_amp() != a) viol("model", "address-of", who + "operator& / operator-> designates another object than the accessor");
            run.dig(want);
        }
        void check_all()
        {
            lifetimes();
            for (int r = 0; r < 3; ++r)
            {
                Referent& f = *refs[r];
                if (f.obj.id != val[r] || f.re != static_cast<double>(val[r]) || f.im != -static_cast<double>(val[r]) || f.iv != static_cast<int>(val[r]) || !f.flag)
                    viol("model", "referent", "referent " + std::to_string(r) + " holds " + std::to_string(f.obj.id) + "/" + std::to_string(f.iv) + ", expected " + std::to_string(val[r]));
                if (f.obj.moved) viol("model", "referent-moved-from", "referent " + std::to_string(r) + " was moved from: something treated a reference closure onto it as an expiring value");
            }
            for (int i = 0; i < 4; ++i) if (h[i]) check_handle(i);
        }

        // ---- building a wrapper from a source expression of a given value category -----------------------
        // category: 0 lvalue, 1 const lvalue, 2 prvalue, 3 xvalue, 4 const xvalue
        H* build(unsigned factory, unsigned cat, int r, uint64_t id, const char*& name, bool& aliases)
        {
            Referent& f = *refs[r];
            aliases = cat <= 1;
            H* out = nullptr;
            // the temporary lives on the heap and is freed before this function returns: a wrapper that kept a
            // reference to it is a deterministic heap-use-after-free afterwards
            std::unique_ptr<P> tmp;
            { Suspend s; tmp.reset(new P(id)); }
            const void* dead = tmp.get();
            uint64_t copies = registry().copies;
            switch (factory)
            {
            case 0:   // closure(x)
                if (cat == 0) { out = new HClosure<P&>(xtl::closure(f.obj)); name = "closure_lvalue"; }
                else if (cat == 1) { out = new HClosure<const P&>(xtl::closure(xtl::as_const(f.obj))); name = "closure_const_lvalue"; out->writable = false; }
                else if (cat == 2) { out = new HClosure<P>(xtl::closure(P(static_cast<const P&>(*tmp)))); name = "closure_prvalue"; }
                else if (cat == 3) { out = new HClosure<P>(xtl::closure(std::move(*tmp))); name = "closure_xvalue"; }
                else { out = new HClosure<const P>(xtl::closure(std::move(xtl::as_const(*tmp)))); name = "closure_const_xvalue"; out->writable = false; }
                break;
            case 1:   // const_closure(x)
                if (cat <= 1) { out = cat == 0 ? static_cast<H*>(new HClosure<const P&>(xtl::const_closure(f.obj))) : new HClosure<const P&>(xtl::const_closure(xtl::as_const(f.obj))); name = cat == 0 ? "const_closure_lvalue" : "const_closure_const_lvalue"; out->writable = false; }
                else { out = new HClosure<P>(xtl::const_closure(std::move(*tmp))); name = "const_closure_xvalue"; }
                break;
            case 2:   // closure_pointer(x)
                if (cat == 0) { out = new HPointer<P&>(xtl::closure_pointer(f.obj)); name = "closure_pointer_lvalue"; }
                else if (cat == 1) { out = new HPointer<const P&>(xtl::closure_pointer(xtl::as_const(f.obj))); name = "closure_pointer_const_lvalue"; out->writable = false; }
                else { out = new HPointer<P>(xtl::closure_pointer(std::move(*tmp))); name = "closure_pointer_xvalue"; }
                break;
            case 3:   // const_closure_pointer(x)
                if (cat <= 1) { out = new HPointer<const P&>(xtl::const_closure_pointer(f.obj)); name = "const_closure_pointer_lvalue"; out->writable = false; aliases = true; }
                else { out = new HPointer<P>(xtl::const_closure_pointer(std::move(*tmp))); name = "const_closure_pointer_xvalue"; }
                break;
            case 4:   // optional(x, flag)
                if (cat <= 1) { out = new HOptional<P&, bool&>(xtl::optional(f.obj, f.flag)); name = "optional_lvalue"; aliases = true; out->flag_addr = &f.flag; }
                else { out = new HOptional<P, bool>(xtl::optional(std::move(*tmp), true)); name = "optional_xvalue"; }
                break;
            case 5:   // xmasked_value over closures
                if (cat <= 1) { out = new HMasked<P&, bool&>(f.obj, f.flag); name = "masked_value_lvalue"; aliases = true; out->flag_addr = &f.flag; }
                else { out = new HMasked<P, bool>(std::move(*tmp), true); name = "masked_value_xvalue"; }
                break;
            case 6:   // proxy_wrapper
                if (cat == 0 && (id & 1)) { out = make_class_proxy<false>(xtl::proxy_wrapper(f.obj)); name = "class_proxy_wrapper_lvalue"; }
                else if (cat == 1 && (id & 1)) { out = make_class_proxy<true>(xtl::proxy_wrapper(xtl::as_const(f.obj))); name = "class_proxy_wrapper_const_lvalue"; out->writable = false; }
                else if (cat <= 1) { out = new HIntProxy(xtl::proxy_wrapper(f.iv)); name = "int_proxy_wrapper_lvalue"; aliases = true; }
                else { out = new HProxy(xtl::proxy_wrapper(std::move(*tmp))); name = "proxy_wrapper_xvalue"; }
                break;
            case 7:   // xcomplex over closures
                if (cat <= 1) { out = new HComplex<double&>(f.re, f.im); name = "complex_lvalue"; aliases = true; }
                else { double a = static_cast<double>(id), b = -a; out = new HComplex<double>(std::move(a), std::move(b)); name = "complex_rvalue"; }
                break;
            case 8:   // optional with closures of different kinds: (lvalue value, own flag) or (own value, caller's flag)
                if (cat <= 1) { out = new HOptional<P&, bool>(xtl::optional(f.obj, true)); name = "optional_lvalue_value_own_flag"; aliases = true; }
                else { out = new HOptional<P, bool&>(xtl::optional(std::move(*tmp), f.flag)); name = "optional_own_value_lvalue_flag"; out->flag_addr = &f.flag; }
                break;
            case 9:   // xmasked_value with closures of different kinds
                if (cat <= 1) { out = new HMasked<P&, bool>(f.obj, true); name = "masked_lvalue_value_own_flag"; aliases = true; }
                else { out = new HMasked<P, bool&>(std::move(*tmp), f.flag); name = "masked_own_value_lvalue_flag"; out->flag_addr = &f.flag; }
                break;
            default:  // closure of a closure
                out = new HNested(xtl::closure(xtl::closure(f.obj))); name = "closure_of_closure_lvalue"; aliases = true;
                break;
            }
            out->kind = name;
            if (aliases)
            {
                out->ref = r;
                out->value_addr = payload_addr(*out, r);
                if (registry().copies != copies) viol("model", "no-copy", std::string(name) + ": building a wrapper from an lvalue copied the referent");
            }
            else { out->ref = -1; out->owned = id; out->dead = dead; }
            { Suspend s; tmp.reset(); }     // end of the temporary's lifetime
            return out;
        }

        void op_build(const Step& st)
        {
            int slot = st.actor % 4;
            unsigned factory = static_cast<unsigned>(st.d % 11), cat = static_cast<unsigned>(st.a % 5);
            int r = static_cast<int>(st.c % 3);
            // name is only known after building; use a provisional scope name from the indices
            static const char* const fn[] = {"closure", "const_closure", "closure_pointer", "const_closure_pointer", "optional", "masked_value", "proxy_wrapper", "complex", "optional_mixed", "masked_mixed", "closure_of_closure"};
            static const char* const cn[] = {"lvalue", "const_lvalue", "prvalue", "xvalue", "const_xvalue"};
            Scope sc(*this, st, "build", std::string(fn[factory]) + "_" + cn[cat]);
            h[slot].reset();
            const char* name = "?"; bool aliases = false;
            h[slot].reset(build(factory, cat, r, fresh(), name, aliases));
            h[slot]->factory = factory; h[slot]->cat = cat;
            if (aliases) SIM_PROBE("wrapper_built_from_lvalue"); else SIM_PROBE("wrapper_built_from_temporary_that_died");
            stats().add(std::string("c07.built.") + name);
            ++run.changing;
            check_all();
        }
        // a partner of the same wrapper type for assignment and swap: half of the time one is built on purpose
        int partner_for(int s, uint64_t raw)
        {
            int o = live_slot(raw);
            if (o >= 0 && o != s && typeid(*h[o]) == typeid(*h[s])) return o;
            if ((raw >> 8) & 1) return o;
            o = (s + 1 + static_cast<int>(raw % 3)) % 4;
            int r = h[s]->ref >= 0 ? (h[s]->ref + 1 + static_cast<int>((raw >> 4) % 2)) % 3 : static_cast<int>(raw % 3);
            if ((raw >> 12) % 6 == 0 && h[s]->ref >= 0) r = h[s]->ref;      // sometimes onto the same referent
            const char* name = "?"; bool aliases = false;
            h[o].reset();
            h[o].reset(build(h[s]->factory, h[s]->cat, r, fresh(), name, aliases));
            h[o]->factory = h[s]->factory; h[o]->cat = h[s]->cat;
            return o;
        }
        int live_slot(uint64_t raw) { for (int k = 0; k < 4; ++k) { int s = static_cast<int>((raw + static_cast<uint64_t>(k)) % 4); if (h[s]) return s; } return -1; }

        void op_write(const Step& st)
        {
            int s = live_slot(static_cast<uint64_t>(st.actor));
            Scope sc(*this, st, "write", s < 0 ? "none" : h[s]->kind);
            if (s < 0 || !h[s]->writable) { stats().add("skipped.not_writable"); check_all(); return; }
            uint64_t v = fresh();
            h[s]->write(v, static_cast<int>(st.b % 3));
            if (h[s]->ref >= 0) SIM_PROBE("write_through_reference_wrapper");
            commit(*h[s], v, "a write");
            ++run.changing;
            check_all();
        }
        void op_owner_write(const Step& st)
        {
            int r = st.actor % 3;
            Scope sc(*this, st, "owner_write", "direct");
            uint64_t v = fresh();
            val[r] = v; refs[r]->set(v);
            SIM_PROBE("owner_write_behind_wrapper");
            ++run.changing;
            check_all();
        }
        void op_copy(const Step& st)
        {
            int s = live_slot(static_cast<uint64_t>(st.actor));
            int d = static_cast<int>(st.c % 4);
            Scope sc(*this, st, "copy", s < 0 ? "none" : h[s]->kind);
            if (s < 0 || d == s) { stats().add("skipped.no_wrapper"); check_all(); return; }
            uint64_t copies = registry().copies;
            H* c = h[s]->clone();
            if (h[s]->ref >= 0 && registry().copies != copies) { delete c; viol("model", "no-copy", "copying a reference wrapper copied the referent"); }
            if (h[s]->ref < 0) c->dead = nullptr;
            c->factory = h[s]->factory; c->cat = h[s]->cat;
            h[d].reset(c);
            if (h[s]->ref >= 0) SIM_PROBE("reference_wrapper_copied"); else SIM_PROBE("value_wrapper_copied");
            ++run.changing;
            check_all();
        }
        void op_assign(const Step& st, bool move)
        {
            int s = live_slot(static_cast<uint64_t>(st.actor));
            Scope sc(*this, st, move ? "move_assign" : "assign", s < 0 ? "none" : h[s]->kind);
            int o = s < 0 ? -1 : partner_for(s, st.c);
            if (s < 0 || o < 0 || o == s || !h[s]->writable) { stats().add("skipped.no_pair"); check_all(); return; }
            const void* before = h[s]->addr();
            uint64_t src = expected(*h[o]), dst = expected(*h[s]);
            if (!h[s]->assign_from(*h[o], move)) { stats().add("skipped.not_assignable"); check_all(); return; }
            // assignment goes through to what the target designates and never rebinds; a moving assignment may exchange the two values
            bool same_target = h[s]->ref >= 0 && h[s]->ref == h[o]->ref;
            if (!same_target)
            {
                uint64_t now = move ? h[o]->read(0) : src;
                if (move && now != src && now != dst) viol("model", "move-source", "after a moving assignment the source holds " + std::to_string(now) + ", neither its own nor the target's previous value");
                commit(*h[s], src, "an assignment");
                commit(*h[o], now, "an assignment (source)");
            }
            if (h[s]->addr() != before) viol("model", "rebind", "assignment rebound the wrapper instead of changing what it designates");
            if (move)
            {
                // what a moving assignment leaves in its source is unspecified (this implementation swaps; moving out of the
                // source's referent would be as legitimate): a moved-from mark on a referent is not judged here
                for (int r = 0; r < 3; ++r) if (refs[r]->obj.moved) { refs[r]->obj.moved = false; registry().set(&refs[r]->obj, refs[r]->obj.id, false); }
            }
            SIM_PROBE(move ? "wrapper_move_assigned" : "wrapper_assigned");
            ++run.changing;
            check_all();
        }
        void op_swap(const Step& st)
        {
            int s = live_slot(static_cast<uint64_t>(st.actor));
            Scope sc(*this, st, "swap", s < 0 ? "none" : h[s]->kind);
            int o = s < 0 ? -1 : partner_for(s, st.c);
            if (s < 0 || o < 0 || o == s || !h[s]->writable || !h[o]->writable) { stats().add("skipped.no_pair"); check_all(); return; }
            const void* a1 = h[s]->addr(); const void* a2 = h[o]->addr();
            uint64_t v1 = expected(*h[s]), v2 = expected(*h[o]);
            if (!h[s]->swap_with(*h[o])) { stats().add("skipped.not_swappable"); check_all(); return; }
            bool same_target = h[s]->ref >= 0 && h[s]->ref == h[o]->ref;
            if (same_target) SIM_PROBE("swap_of_two_wrappers_onto_same_referent");
            else { commit(*h[s], v2, "a swap"); commit(*h[o], v1, "a swap"); }
            if (h[s]->addr() != a1 || h[o]->addr() != a2) viol("model", "rebind", "swap exchanged what the wrappers designate instead of the values");
            SIM_PROBE("wrappers_swapped");
            ++run.changing;
            check_all();
        }
        void op_destroy(const Step& st)
        {
            int s = st.actor % 4;
            Scope sc(*this, st, "destroy", h[s] ? h[s]->kind : "none");
            uint64_t v[3] = {val[0], val[1], val[2]};
            h[s].reset();
            for (int r = 0; r < 3; ++r) if (refs[r]->obj.id != v[r]) viol("model", "referent", "destroying a wrapper changed a referent");
            check_all();
        }

        // forward_sequence: same type -> the argument itself (no copy); other type -> a converted copy
        void op_forward_sequence(const Step& st)
        {
            unsigned v = static_cast<unsigned>(st.d % 10);
            static const char* const vn[] = {"same_type_lvalue", "same_type_rvalue", "vector_to_array", "array_to_vector",
                                             "same_type_const_lvalue", "same_array_const_lvalue", "same_array_lvalue", "same_array_rvalue",
                                             "cvref_qualified_result_type", "tracked_vector_to_array"};
            Scope sc(*this, st, "forward_sequence", vn[v]);
            if (v >= 4)
            {
                // sequences of copy-counting elements: forwarding a sequence of the requested type must hand back the
                // argument itself, whatever its cv/reference form, without copying a single element
                using VP = std::vector<P>; using AP = std::array<P, 3>;
                uint64_t base = fresh();
                VP vp; vp.reserve(3); for (uint64_t k = 0; k < 3; ++k) vp.emplace_back(base + k);
                AP ap{{P(base), P(base + 1), P(base + 2)}};
                uint64_t copies = registry().copies, moves = registry().moves;
                const char* what = nullptr;
                if (v == 4) { const VP& c = vp; auto&& r = xtl::forward_sequence<VP, const VP&>(c); if (static_cast<const void*>(&r) != &vp) what = "a const lvalue of the requested type"; }
                else if (v == 5) { const AP& c = ap; auto&& r = xtl::forward_sequence<AP, const AP&>(c); if (static_cast<const void*>(&r) != &ap) what = "a const lvalue array of the requested type"; }
                else if (v == 6) { auto&& r = xtl::forward_sequence<AP, AP&>(ap); if (static_cast<const void*>(&r) != &ap) what = "an lvalue array of the requested type"; else { r[1].id = 7; if (ap[1].id != 7) what = "an lvalue array (write through)"; } }
                else if (v == 7) { auto&& r = xtl::forward_sequence<AP, AP>(std::move(ap)); if (static_cast<const void*>(&r) != &ap) what = "an rvalue array of the requested type"; }
                else if (v == 8) { auto&& r = xtl::forward_sequence<const VP&, VP&>(vp); if (static_cast<const void*>(&r) != &vp) what = "an lvalue, the result type being given as const R&"; }
                else
                {
                    AP r = xtl::forward_sequence<AP, const VP&>(vp);     // another type: an independent converted copy
                    if (r[0].id != base || r[2].id != base + 2) viol("model", "forward", "converted copy differs from the source");
                    r[0].id = 1; if (vp[0].id == 1) viol("model", "forward", "converted sequence aliases its source");
                    copies = registry().copies; moves = registry().moves;
                }
                if (what) viol("model", "forward", std::string("forward_sequence of ") + what + " does not return the object itself");
                if (registry().copies != copies || registry().moves != moves)
                    viol("model", "no-copy", std::string("forward_sequence (") + vn[v] + ") copied or moved elements of a sequence that already has the requested type");
                SIM_PROBE("forward_sequence_checked");
                check_all();
                return;
            }
            std::vector<int> vec{static_cast<int>(st.a % 100), 2, 3};
            std::array<int, 3> arr{{static_cast<int>(st.b % 100), 5, 6}};
            if (v == 0)
            {
                auto&& r = xtl::forward_sequence<std::vector<int>, std::vector<int>&>(vec);
                if (&r != &vec) viol("model", "forward", "forward_sequence of an lvalue of the requested type does not return the object itself");
                r[0] = 77;
                if (vec[0] != 77) viol("model", "forward", "write through the forwarded sequence did not reach the original");
            }
            else if (v == 1)
            {
                const int* data = vec.data();
                std::vector<int> moved = xtl::forward_sequence<std::vector<int>, std::vector<int>>(std::move(vec));
                if (moved.data() != data) viol("model", "forward", "forward_sequence of an rvalue of the requested type copied instead of moving");
            }
            else if (v == 2)
            {
                std::array<int, 3> r = xtl::forward_sequence<std::array<int, 3>, std::vector<int>&>(vec);
                if (r[0] != vec[0] || r[2] != vec[2]) viol("model", "forward", "converted copy differs from the source");
                r[0] = -1;
                if (vec[0] == -1) viol("model", "forward", "converted sequence aliases its source");
            }
            else
            {
                std::vector<int> r = xtl::forward_sequence<std::vector<int>, std::array<int, 3>&>(arr);
                if (r.size() != 3 || r[0] != arr[0] || r[2] != arr[2]) viol("model", "forward", "converted copy differs from the source");
            }
            SIM_PROBE("forward_sequence_checked");
            check_all();
        }

        // bitset element reference built from an lvalue bitset
        void op_bit_reference(const Step& st)
        {
            Scope sc(*this, st, "bit_reference", "lvalue");
            xtl::xdynamic_bitset<uint32_t> b(40, false);
            size_t i = static_cast<size_t>(st.a % 40), j = static_cast<size_t>(st.b % 40);
            auto r = b[i];
            r = true;
            if (!b[i] || b.count() != 1) viol("model", "alias", "write through a bitset element reference did not reach exactly that bit");
            auto c = r;               // a copy designates the same bit
            c.flip();
            if (b[i]) viol("model", "alias", "a copy of a bitset element reference designates another bit");
            auto p = &r;
            *p = true;
            if (!b[i]) viol("model", "address-of", "& on a bitset element reference yields a pointer to another bit");
            auto q = b[j];
            q = r;                    // assigns the value, never rebinds
            if (static_cast<bool>(b[j]) != static_cast<bool>(b[i])) viol("model", "rebind", "assigning one element reference to another did not copy the bit value");
            b.set(i, false);
            if (i != j && !b[j]) viol("model", "rebind", "assigning one element reference to another rebound it");
            {
                // const element references and const iterators are references too, not snapshots: held across a write through
                // another path they read the new value
                const auto& cb = b;
                auto cr = cb[j];
                auto cr2 = cr;
                auto cit = cb.cbegin() + static_cast<std::ptrdiff_t>(j);
                bool was = static_cast<bool>(cr);
                b.set(j, !was);
                if (static_cast<bool>(cr) != !was || static_cast<bool>(cr2) != !was) viol("model", "alias", "a const bitset element reference held across a write still reads the old bit");
                if (static_cast<bool>(*cit) != !was) viol("model", "alias", "a const bitset iterator held across a write reads the old bit");
                b[j].flip();
                if (static_cast<bool>(cr) != was) viol("model", "alias", "a const bitset element reference does not follow a flip through a non-const reference");
            }
            SIM_PROBE("bitset_reference_checked");
            check_all();
        }

        // Element proxies of the optional containers are xoptional closures over (reference to the value, reference proxy onto
        // the flag bit): swap exchanges both referents, assignment writes both through, nothing else changes, nothing rebinds.
        template <class C>
        void element_proxy(C& c, std::vector<int>& mv, std::vector<bool>& mf, const Step& st, unsigned v)
        {
            size_t n = mv.size();
            size_t i = static_cast<size_t>(st.a % n), j = static_cast<size_t>(st.b % n);
            const int* pi = &c[i].value();
            const int* pj = &c[j].value();
            auto a = c[i];
            auto b = c[j];
            switch (v)
            {
            case 0: a.swap(b); { int t = mv[i]; mv[i] = mv[j]; mv[j] = t; bool f = mf[i]; mf[i] = mf[j]; mf[j] = f; } break;
            case 1: b.swap(a); { int t = mv[i]; mv[i] = mv[j]; mv[j] = t; bool f = mf[i]; mf[i] = mf[j]; mf[j] = f; } break;
            case 2: a = xtl::as_const(c)[j]; mv[i] = mv[j]; mf[i] = mf[j]; break;          // (proxy = proxy of the same type is deleted)
            case 3: c[i] = xtl::as_const(c)[j]; mv[i] = mv[j]; mf[i] = mf[j]; break;
            case 4: a = xtl::missing<int>(); mf[i] = false; mv[i] = c[i].value(); break;      // the value under a missing flag is unspecified
            case 5: { int nv = static_cast<int>(st.c % 100000); a = nv; mv[i] = nv; mf[i] = true; } break;
            case 6: { auto o = xtl::optional(static_cast<int>(st.c % 1000), (st.c & 1024) != 0); a = o; mv[i] = static_cast<int>(st.c % 1000); mf[i] = (st.c & 1024) != 0; } break;
            default: { auto cpy = a; cpy = xtl::as_const(c)[j]; mv[i] = mv[j]; mf[i] = mf[j]; } break;             // a copy of a proxy designates the same element
            }
            if (&c[i].value() != pi || &c[j].value() != pj || &a.value() != pi || &b.value() != pj) viol("model", "rebind", "an operation on element proxies rebound one of them");
            for (size_t k = 0; k < n; ++k)
            {
                bool f = static_cast<bool>(c[k].has_value());
                if (f != mf[k]) viol("model", "flag", "element " + std::to_string(k) + " of " + std::to_string(n) + ": flag is " + (f ? "set" : "clear") + " after the operation on elements " + std::to_string(i) + " and " + std::to_string(j) + ", expected " + (mf[k] ? "set" : "clear"));
                if (c[k].value() != mv[k]) viol("model", "value", "element " + std::to_string(k) + ": value is " + std::to_string(c[k].value()) + ", expected " + std::to_string(mv[k]));
                if (static_cast<bool>(c.has_value()[k]) != mf[k] || c.value()[k] != mv[k]) viol("model", "storage", "element " + std::to_string(k) + ": the storages disagree with the element proxy");
            }
        }
        void op_element_proxy(const Step& st)
        {
            static const char* const vn[] = {"swap", "swap_reversed", "assign_const_proxy", "temporary_assign_const_proxy", "assign_missing", "assign_value", "assign_owning_optional", "assign_through_copy"};
            unsigned v = static_cast<unsigned>(st.d % 8);
            bool arr = (st.d >> 3) & 1;
            Scope sc(*this, st, "element_proxy", std::string(vn[v]) + (arr ? "_array" : "_vector"));
            const size_t n = arr ? 5 : 2 + static_cast<size_t>((st.d >> 4) % 70);
            std::vector<int> mv(n);
            std::vector<bool> mf(n);
            uint64_t bits = st.c * 0x9e3779b97f4a7c15ULL + st.a;
            for (size_t k = 0; k < n; ++k) { mv[k] = static_cast<int>(1000 + k); mf[k] = ((bits >> (k % 61)) ^ (k / 61)) & 1; }
            if (arr)
            {
                xtl::xoptional_array<int, 5> c;
                for (size_t k = 0; k < n; ++k) { c[k] = mv[k]; if (!mf[k]) c.has_value()[k] = false; }
                element_proxy(c, mv, mf, st, v);
            }
            else
            {
                xtl::xoptional_vector<int> c(n, 0);
                for (size_t k = 0; k < n; ++k) { c[k] = mv[k]; if (!mf[k]) c.has_value()[k] = false; }
                element_proxy(c, mv, mf, st, v);
            }
            SIM_PROBE("optional_element_proxies_checked");
            check_all();
        }

        // Construction and assignment between xoptional closures of different kinds: a reference proxy - also a temporary
        // or moved one - copied into an owning optional copies the referent (never moves out of it); an owning optional
        // assigned into a reference proxy writes through to the referent.
        void op_cross_closure(const Step& st)
        {
            static const char* const vn[] = {"own_from_proxy_lvalue", "own_from_proxy_moved", "own_from_proxy_temporary", "construct_own_from_proxy_temporary", "construct_own_from_proxy_moved",
                                             "proxy_from_own_lvalue", "proxy_from_own_moved", "own_from_proxy_const", "swap_same_referent_different_flags",
                                             "own_from_lvalue_value_rvalue_flag", "own_from_lvalue_value_lvalue_flag",
                                             "value_wrapper_built_directly_from_lvalue", "assigned_value_throws_under_clear_flag", "assigned_value_reads_own_flag", "real_imag_of_temporaries"};
            unsigned v = static_cast<unsigned>(st.d % 15);
            int r = static_cast<int>(st.c % 3);
            Scope sc(*this, st, "cross_closure", vn[v]);
            Referent& f = *refs[r];
            using Own = xtl::xoptional<P, bool>;
            using Proxy = xtl::xoptional<P&, bool&>;
            uint64_t id = fresh();
            uint64_t before = val[r];
            if (v == 11)
            {
                // an owning wrapper (value closure) constructed directly, not through closure(), from the caller's non-const
                // lvalue: it copies, the caller's object keeps its value
                uint64_t copies = registry().copies;
                { xtl::xclosure_wrapper<P> w(f.obj); if (w.get().id != before) viol("model", "read", "a value wrapper built from an lvalue holds another value"); }
                if (registry().copies == copies) viol("model", "own", "a value wrapper built directly from the caller's lvalue did not copy it");
                SIM_PROBE("cross_closure_kind_assignment");
                check_all();       // the referent must not have been moved from
                return;
            }
            if (v == 12)
            {
                // the flag of an optional is set by a value assignment AFTER the value arrived: if storing the value throws,
                // a clear flag stays clear (nothing was stored)
                ThrowsOnAssign x(5); bool fl = false;
                xtl::xoptional<ThrowsOnAssign&, bool&> o(x, fl);
                ThrowsOnAssign y(6);
                ThrowsOnAssign::armed = true;
                bool threw = false;
                try { if (st.b & 1) o = y; else o = ThrowsOnAssign(7); } catch (const Injected&) { threw = true; }
                ThrowsOnAssign::armed = false;
                if (!threw) viol("model", "exception", "the payload's throwing assignment did not run or its exception was swallowed");
                if (fl) viol("model", "flag", "assigning a value whose assignment throws left the flag set although no value was stored");
                if (x.v != 5) viol("model", "value", "a failed value assignment changed the value");
                o = y;
                if (!fl || x.v != 6) viol("model", "write-through", "a value assignment did not reach value and flag");
                SIM_PROBE("cross_closure_kind_assignment");
                check_all();
                return;
            }
            if (v == 13)
            {
                // the assigned expression is the optional's own flag referent: the value is read before the flag is set
                int a = 7; bool there = false;
                xtl::xoptional<int&, bool&> o(a, there);
                if (st.b & 1) o = there; else o = static_cast<const bool&>(o.has_value());
                if (a != 0 || !there) viol("model", "order", "o = <its own clear flag> gave value " + std::to_string(a) + ", flag " + (there ? "set" : "clear") + "; expected value 0 (what was assigned), flag set");
                SIM_PROBE("cross_closure_kind_assignment");
                check_all();
                return;
            }
            if (v == 14)
            {
                // real()/imag() of a temporary std::complex or scalar hand out a value, not a reference into the dead temporary
                double re = static_cast<double>(id), im = -re;
                using SC = std::complex<double>;
                uint64_t g1 = after_death(SC(re, im), [](SC&& x) -> decltype(auto) { return xtl::real(std::move(x)); });
                uint64_t g2 = after_death(SC(re, im), [](SC&& x) -> decltype(auto) { return xtl::imag(std::move(x)); });
                uint64_t g3 = after_death(re, [](double&& x) -> decltype(auto) { return xtl::real(std::move(x)); });
                uint64_t g4 = after_death(re, [](double&& x) -> decltype(auto) { return xtl::imag(std::move(x)); });
                if (g1 == DANGLING || g2 == DANGLING || g3 == DANGLING || g4 == DANGLING) viol("model", "dangling", "real()/imag() of a temporary returned a reference into the temporary");
                if (g1 != id || g2 != id || g3 != id || g4 != 0) viol("model", "read", "real()/imag() of a temporary std::complex / scalar read other values");
                SIM_PROBE("cross_closure_kind_assignment");
                check_all();
                return;
            }
            if (v >= 9)
            {
                // an owning optional (explicit value closure) constructed from the caller's lvalue value copies it - with an
                // rvalue flag as well as with an lvalue flag
                using Own2 = xtl::xoptional<P, bool>;
                bool fl = true;
                uint64_t copies = registry().copies;
                if (v == 9) { Own2 o(f.obj, true); if (o.value().id != before) viol("model", "read", "an owning optional built from an lvalue holds another value"); }
                else { Own2 o(f.obj, fl); if (o.value().id != before) viol("model", "read", "an owning optional built from an lvalue holds another value"); }
                if (registry().copies == copies) viol("model", "own", "an owning optional built from the caller's lvalue did not copy it");
                SIM_PROBE("cross_closure_kind_assignment");
                check_all();       // the referent must not have been moved from
                return;
            }
            if (v == 8)
            {
                // two proxies onto the same value whose flags are different objects holding different values: swap exchanges the flags
                bool f1 = true, f2 = false;
                Proxy a = xtl::optional(f.obj, f1), b = xtl::optional(f.obj, f2);
                if (st.b & 1) a.swap(b); else b.swap(a);
                if (f1 != false || f2 != true) viol("model", "swap", "swapping two optionals onto the same value did not exchange their (different) flags");
                if (f.obj.id != before) viol("model", "swap", "swapping two optionals onto the same value changed it");
                SIM_PROBE("cross_closure_kind_assignment");
                check_all();
                return;
            }
            {
                Own own(P(id), true);
                Proxy px = xtl::optional(f.obj, f.flag);
                uint64_t got = 0;
                switch (v)
                {
                case 0: own = px; got = own.value().id; break;
                case 1: own = std::move(px); got = own.value().id; break;
                case 2: own = xtl::optional(f.obj, f.flag); got = own.value().id; break;
                case 3: { Own o2(xtl::optional(f.obj, f.flag)); got = o2.value().id; } break;
                case 4: { Own o2(std::move(px)); got = o2.value().id; } break;
                case 5: px = own; got = before; break;
                case 6: px = std::move(own); got = before; break;
                default: { const Proxy& cpx = px; own = cpx; got = own.value().id; } break;
                }
                if (v == 5 || v == 6)
                {
                    // written through: the referent now holds the owning optional's value
                    if (f.obj.id != id) viol("model", "write-through", "assigning an owning optional into a reference proxy did not reach the referent");
                    if (&px.value() != &f.obj) viol("model", "rebind", "assignment rebound the proxy");
                    val[r] = id; f.set(id);
                    f.obj.moved = false; registry().set(&f.obj, id, false);
                }
                else
                {
                    if (got != before) viol("model", "read", std::string("an owning optional built/assigned from a reference proxy (") + vn[v] + ") holds " + std::to_string(got) + ", the referent holds " + std::to_string(before));
                }
                SIM_PROBE("cross_closure_kind_assignment");
            }
            ++run.changing;
            check_all();
        }

        void step(const Step& st)
        {
            switch (st.op)
            {
            case OP_cross_closure: op_cross_closure(st); break;
            case OP_build: op_build(st); break;
            case OP_write: op_write(st); break;
            case OP_owner_write: op_owner_write(st); break;
            case OP_copy: op_copy(st); break;
            case OP_assign: op_assign(st, false); break;
            case OP_move_assign: op_assign(st, true); break;
            case OP_swap: op_swap(st); break;
            case OP_destroy: op_destroy(st); break;
            case OP_read: { Scope sc(*this, st, "read", "all"); check_all(); } break;
            case OP_forward_sequence: op_forward_sequence(st); break;
            case OP_bit_reference: op_bit_reference(st); break;
            case OP_element_proxy: op_element_proxy(st); break;
            default: { StepScope sc(run, st, "noop"); } break;
            }
        }
        void run_all()
        {
            if (const char* bad = static_table())
                fail("model", std::string("C07/static/") + bad, "closure type trait does not map this value category as the model assumes (static half; evaluated, not simulated)");
            check_all();
            for (const Step& st : plan.steps) as_caller(run, st, [&] { step(st); });
            tail = "teardown/-";
            teardown();
            lifetimes();
            if (!registry().live.empty()) viol("lifetime", "leak", std::to_string(registry().live.size()) + " objects owned by wrappers were never destroyed");
        }
    };

    void gen(Plan& plan, Rng& cfg, Rng& pr, int)
    {
        size_t n = 1;
        while (n < 25 && cfg.below(9) != 0) ++n;
        plan.params.push_back(n);
        unsigned w[OP_COUNT] = {10, 8, 6, 4, 4, 3, 4, 2, 2, 1, 1, 2, 2};
        if (cfg.below(3) == 0) for (unsigned i = 1; i < OP_COUNT; ++i) if (cfg.below(4) == 0) w[i] = 0;
        unsigned total = 0;
        for (unsigned i = 0; i < OP_COUNT; ++i) total += w[i];
        for (size_t i = 0; i < n; ++i)
        {
            Step s;
            uint64_t pick = pr.below(total);
            for (unsigned o = 0; o < OP_COUNT; ++o) { if (pick < w[o]) { s.op = static_cast<int>(o); break; } pick -= w[o]; }
            if (i == 0) s.op = OP_build;
            s.actor = static_cast<int>(pr.below(12));
            s.a = pr.next() >> 40; s.b = pr.next() >> 40; s.c = pr.next() >> 40; s.d = pr.next() >> 44;
            plan.steps.push_back(s);
        }
    }
    void exec(const Plan& plan, Run& run)
    {
        std::unique_ptr<World> w(new World(run, plan));
        try { w->run_all(); }
        catch (...) { clear_pending(); try { w->teardown(); } catch (...) {} clear_pending(); throw; }
    }
    RegisterCfg reg("wrappers_over_tracked_payload", gen, exec, 1, false);
}
