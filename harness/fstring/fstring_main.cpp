// harness `fstring` — C01, C02, C14.  Configurations are separate translation units (fstring_cfg.cpp).
#define SIMKIT_MAIN
#include "../../sim/simkit.hpp"
#include "fstring_ops.hpp"

namespace sim
{
    const char* const harness_name = "fstring";
    const bool caller_threads_enabled = true;
#define X(n) #n,
    const char* const op_names[] = {FSTRING_OPS(X)};
#undef X
    const int op_count = fsops::OP_COUNT;
    const char* const fault_names[] = {"none", "throw", "alloc", "stream", "syscall", nullptr};
    bool workload_admits(const std::string& workload, const std::string& cfg)
    {
        if (workload == "c02") return cfg.size() > 6 && cfg.compare(cfg.size() - 6, 6, "_throw") == 0;
        return true;
    }
    int enumerate_kind() { return 0; }
}
