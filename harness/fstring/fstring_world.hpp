// World of the fixed-string harness: three xbasic_fixed_string objects of one
// instantiation in simulator-owned dirty memory, a std::basic_string model next
// to each, and an interpreter that applies every plan step to both.
// Serves C01 (refinement), C02 (containment / failure atomicity), C14 (hash coherence).
#ifndef FSTRING_WORLD_HPP
#define FSTRING_WORLD_HPP

#include "../../sim/simkit.hpp"
#include "../../refs/murmur_ref.hpp"
#include "fstring_ops.hpp"

#include <deque>
#include <list>
#include <memory>
#include <streambuf>
#include <istream>
#include <ostream>
#include <initializer_list>

#include "xtl/xbasic_fixed_string.hpp"

namespace fsw
{
    using namespace sim;
    using namespace fsops;

    enum Mode { M_C01, M_C02, M_C14 };
    enum Layout { L_PACKED, L_SIZEFIELD, L_STRLEN };
    enum Exc { E_OK, E_LEN, E_OOR, E_OTHER };

    inline const char* exc_name(Exc e) { return e == E_OK ? "no exception" : e == E_LEN ? "length_error" : e == E_OOR ? "out_of_range" : "other exception"; }

    struct Abandon {};   // oracle owned by another property failed: stop the run quietly

    // ---- simulated stream buffers (char only) ------------------------------------
    struct InBuf : std::streambuf
    {
        std::string content;
        size_t chunk, avail, throw_at, base = 0;
        bool threw = false;
        InBuf(const std::string& c, size_t chunk_, size_t eof_after, size_t throw_at_)
            : content(c), chunk(chunk_ ? chunk_ : 1), avail(std::min(eof_after, c.size())), throw_at(throw_at_)
        {
            setg(&content[0], &content[0], &content[0]);
        }
        int_type underflow() override
        {
            size_t pos = static_cast<size_t>(gptr() - &content[0]);
            if (pos >= throw_at && throw_at < avail) { threw = true; throw std::runtime_error("simulated read error"); }
            if (pos >= avail) return traits_type::eof();
            size_t end = std::min(std::min(pos + chunk, avail), throw_at > pos ? throw_at : avail);
            if (end <= pos) end = pos + 1;
            setg(&content[0], &content[0] + pos, &content[0] + end);
            return traits_type::to_int_type(content[pos]);
        }
        size_t consumed() const { return static_cast<size_t>(gptr() - &content[0]); }
    };

    struct OutBuf : std::streambuf
    {
        std::string written;
        size_t capacity;
        bool refused = false;
        explicit OutBuf(size_t cap) : capacity(cap) {}
        int_type overflow(int_type c) override
        {
            if (traits_type::eq_int_type(c, traits_type::eof())) return traits_type::not_eof(c);
            if (written.size() >= capacity) { refused = true; return traits_type::eof(); }   // disk full
            written.push_back(traits_type::to_char_type(c));
            return c;
        }
    };

    // A genuinely single-pass input iterator (like std::istreambuf_iterator): all copies share one cursor, a range can be
    // neither measured nor read twice.
    template <class CT> struct SPState { const CT* data; size_t pos, n; };
    struct derived_input_tag : std::input_iterator_tag {};     // iterator libraries define their own tags derived from the standard ones
    template <class CT, class Tag = std::input_iterator_tag> struct SinglePass
    {
        using iterator_category = Tag;
        using value_type = CT;
        using difference_type = std::ptrdiff_t;
        using pointer = const CT*;
        using reference = const CT&;
        SPState<CT>* st = nullptr;
        SinglePass() {}
        explicit SinglePass(SPState<CT>* s) : st(s) {}
        bool at_end() const { return !st || st->pos >= st->n; }
        reference operator*() const { return st->data[st->pos]; }
        SinglePass& operator++() { ++st->pos; return *this; }
        SinglePass operator++(int) { SinglePass t(*this); ++st->pos; return t; }
        friend bool operator==(const SinglePass& a, const SinglePass& b) { return a.at_end() == b.at_end(); }
        friend bool operator!=(const SinglePass& a, const SinglePass& b) { return !(a == b); }
    };

    // A random-access range that is generated, not stored: it can be far longer than any memory
    template <class CT> struct Counting
    {
        using iterator_category = std::random_access_iterator_tag;
        using value_type = CT;
        using difference_type = std::ptrdiff_t;
        using pointer = const CT*;
        using reference = const CT&;
        uint64_t i = 0;
        mutable CT cur = CT();      // (dereferencing yields an lvalue, as code that takes &*it expects of a random-access iterator)
        Counting() {}
        explicit Counting(uint64_t k) : i(k) {}
        reference operator*() const { cur = static_cast<CT>('a' + i % 4); return cur; }
        CT operator[](difference_type d) const { return static_cast<CT>('a' + (i + static_cast<uint64_t>(d)) % 4); }
        Counting& operator++() { ++i; return *this; }
        Counting operator++(int) { Counting t(*this); ++i; return t; }
        Counting& operator--() { --i; return *this; }
        Counting operator--(int) { Counting t(*this); --i; return t; }
        Counting& operator+=(difference_type d) { i += static_cast<uint64_t>(d); return *this; }
        Counting& operator-=(difference_type d) { i -= static_cast<uint64_t>(d); return *this; }
        friend Counting operator+(Counting a, difference_type d) { a += d; return a; }
        friend Counting operator+(difference_type d, Counting a) { a += d; return a; }
        friend Counting operator-(Counting a, difference_type d) { a -= d; return a; }
        friend difference_type operator-(const Counting& a, const Counting& b) { return static_cast<difference_type>(a.i - b.i); }
        friend bool operator==(const Counting& a, const Counting& b) { return a.i == b.i; }
        friend bool operator!=(const Counting& a, const Counting& b) { return a.i != b.i; }
        friend bool operator<(const Counting& a, const Counting& b) { return a.i < b.i; }
        friend bool operator>(const Counting& a, const Counting& b) { return a.i > b.i; }
        friend bool operator<=(const Counting& a, const Counting& b) { return a.i <= b.i; }
        friend bool operator>=(const Counting& a, const Counting& b) { return a.i >= b.i; }
    };

    struct Ret
    {
        bool has_v = false, has_str = false;
        uint64_t v = 0;
        std::u32string s16;   // strings are compared as sequences of 32-bit units (characters widened)
        template <class CT> void set_str(const CT* p, size_t n) { has_str = true; s16.assign(p, p + n); }
    };

    template <class CT, std::size_t N, int ST, template <std::size_t> class EP, bool Throwing, int LAYOUT>
    struct World
    {
        using FS = xtl::xbasic_fixed_string<CT, N, ST, EP>;
        using Str = std::basic_string<CT>;
        using IL = std::initializer_list<CT>;
        static constexpr size_t npos = static_cast<size_t>(-1);
        static constexpr bool is_char = sizeof(CT) == 1;

        Slot<FS> slot[3];
        Str model[3];
        Run& run;
        const Plan& plan;
        Mode mode;
        const char* prop;
        bool alias_on, nul_on, stream_faults;
        Rng env;
        std::string tail;        // <family>/<variant>,<lenclass>  (for signatures)
        size_t last_add = 0;     // characters the current call asks to add (for the both-exceptions case)
        bool last_threw = false;
        bool aliasing = false;
        std::unique_ptr<CT[]> destbuf;

        World(Run& r, const Plan& p) : run(r), plan(p), env(stream(p.seed, TAG_ENV))
        {
            mode = p.workload == "c02" ? M_C02 : (p.workload == "c14" ? M_C14 : M_C01);
            prop = mode == M_C02 ? "C02" : (mode == M_C14 ? "C14" : "C01");
            auto par = [&](size_t i) { return i < p.params.size() ? p.params[i] : 0; };
            alias_on = par(1) != 0 && mode != M_C14;     // aliasing arguments: C01 (results) and C02 (rejected calls change nothing)
            nul_on = par(2) != 0 && LAYOUT != L_STRLEN;
            stream_faults = par(4) != 0;
            tail = "initial/default,len==0";
            for (int i = 0; i < 3; ++i)
            {
                slot[i].prepare(env, env.next());
                new (slot[i].ptr()) FS();
                slot[i].live = true;
            }
        }

        // ---- violations ------------------------------------------------------------
        [[noreturn]] void viol(const char* owner, const char* cls, const char* oracle, const std::string& msg)
        {
            if (std::strcmp(owner, prop) != 0)
            {
                stats().add(std::string("abandoned.oracle_of_") + owner);
                throw Abandon();
            }
            // an aliasing call has one signature per overload, whatever oracle notices the damage
            fail(cls, std::string(owner) + "/" + (aliasing ? "alias" : oracle) + "/" + tail, msg);
        }
        const char* state_owner() const
        {
            // a state mismatch after a rejected call is C02's, after a successful one C01's
            if (mode == M_C02 && last_threw) return "C02";
            return "C01";
        }

        // ---- helpers ------------------------------------------------------------------
        static const char* lenclass(size_t len)
        {
            if (len == N) return "len==N";
            if (len == 0) return "len==0";
            if (len + 1 == N) return "len==N-1";
            return "mid";
        }
        static std::string show(const Str& s)
        {
            std::ostringstream o;
            o << '"';
            for (size_t i = 0; i < s.size() && i < 48; ++i)
            {
                unsigned c = static_cast<unsigned>(static_cast<typename std::make_unsigned<CT>::type>(s[i]));
                if (c >= 32 && c < 127) o << static_cast<char>(c); else o << "\\x" << std::hex << c << std::dec;
            }
            if (s.size() > 48) o << "...";
            o << "\"(" << s.size() << ")";
            return o.str();
        }
        // position valid for std::string: 0..len, boundary biased.  raw 0 -> 0, raw 1 -> len
        static size_t pos_in(uint64_t raw, size_t len)
        {
            unsigned sel = raw & 7; raw >>= 3;
            if (sel == 0) return 0;
            if (sel == 1) return len;
            if (sel == 2) return len ? len - 1 : 0;
            return static_cast<size_t>(raw % (len + 1));
        }
        // position that may be out of range under the C02 workload
        size_t pos_any(uint64_t raw, size_t len) const
        {
            if (mode == M_C01 && Throwing && ((raw >> 40) & 15) == 15) { SIM_PROBE("bad_position_under_C01"); return (raw >> 39) & 1 ? len + 1 : npos; }
            if (mode != M_C02) return pos_in(raw, len);
            unsigned sel = static_cast<unsigned>(raw % 10); raw /= 10;
            if (sel < 6) return pos_in(raw, len);
            const size_t ch[6] = {len + 1, len + 2, N, N + 1, N + 2, npos};
            return ch[raw % 6];
        }
        // search position: any value is legal
        static size_t pos_find(uint64_t raw, size_t len)
        {
            unsigned sel = raw & 7; raw >>= 3;
            if (sel == 0) return 0;
            if (sel == 1) return len;
            if (sel == 2) return len ? len - 1 : 0;
            if (sel == 3) return len + 1;
            if (sel == 4) return npos;
            return static_cast<size_t>(raw % (len + 2));
        }
        // number of characters to add given the room left; may exceed it under C02
        size_t cnt_add(uint64_t raw, size_t room) const
        {
            unsigned sel = raw & 7; raw >>= 3;
            if (mode == M_C02 && sel >= 5)
            {
                const size_t ch[4] = {room + 1, room + 2, N + 1, N + 2};
                return ch[raw % 4];
            }
            if (sel == 0) return 0;
            if (sel == 1) return room ? 1 : 0;
            if (sel == 2) return room;
            return static_cast<size_t>(raw % (room + 1));
        }
        // an absolute new length (assign(count, ch), resize(count), constructor (count, ch)): nothing is added to size(), so any
        // value up to npos is a legal argument; under C02 the huge ones must be rejected with length_error
        size_t cnt_abs(uint64_t raw) const
        {
            if (mode == M_C02 && (raw & 31) == 31)
            {
                SIM_PROBE("huge_absolute_count");
                // all beyond std::basic_string's max_size(), so that the reference rejects them too (without trying to allocate)
                const size_t ch[4] = {npos, npos - 1, npos - 4096, npos / 2 + 2};
                return ch[(raw >> 5) % 4];
            }
            return cnt_add(raw, N);
        }
        // count that the callee clamps to what is available
        static size_t cnt_clamp(uint64_t raw, size_t avail)
        {
            unsigned sel = raw & 7; raw >>= 3;
            if (sel == 0) return 0;
            if (sel == 1) return 1;
            if (sel == 2) return avail;
            if (sel == 3) return (raw & 3) == 0 ? npos - 1 - static_cast<size_t>((raw >> 2) % 70) : npos;    // npos and counts just below it
            if (sel == 4) return avail + 1;
            return static_cast<size_t>(raw % (avail + 2));
        }
        CT mkch(uint64_t raw, bool allow_nul) const
        {
            unsigned sel = raw & 15; raw >>= 4;
            if (sel < 11) return static_cast<CT>('a' + raw % 4);
            if (sel == 11) return static_cast<CT>(' ');
            if (sel == 12) return static_cast<CT>(0x80 + raw % 0x80);
            if (sel == 13 && !is_char)
            {
                if ((raw & 3) == 2) return static_cast<CT>(0x100u * (1 + (raw >> 2) % 0x7f) + static_cast<unsigned>('a' + (raw >> 9) % 4));   // 'a'..'d' in the low byte only
                if (sizeof(CT) >= 4 && (raw & 3) == 3) return static_cast<CT>(0x80000000u + (raw >> 2) % 0x100);    // top bit set: negative where CT is signed (wchar_t)
                if (sizeof(CT) == 2 && (raw & 3) == 3) return static_cast<CT>(0xFF00u + (raw >> 2) % 0x100);
                return static_cast<CT>(sizeof(CT) >= 4 && (raw & 1) ? 0x10000 + raw % 0xFFFFF : 0x100 + raw % 0xF000);
            }
            if (sel == 14 && allow_nul && nul_on) return CT();
            return static_cast<CT>('w' + raw % 4);
        }
        Str mkstr(uint64_t raw, size_t len, bool allow_nul) const
        {
            Rng r(mix(raw, 0x737472, len));
            Str s;
            s.reserve(len);
            for (size_t i = 0; i < len; ++i) s.push_back(mkch(r.next(), allow_nul));
            return s;
        }
        // an iterator range over the characters of arg: forward-only (list), random access but not contiguous (a deque that
        // crosses a block boundary, reverse iterators), contiguous (vector)
        template <class F> static void with_range(uint64_t kind, const Str& arg, F f)
        {
            switch (kind % 4)
            {
            case 0: { std::list<CT> l(arg.begin(), arg.end()); f(l.begin(), l.end()); } break;
            case 1:
                {
                    std::deque<CT> d;
                    size_t pad = 512 / sizeof(CT) - 2 - static_cast<size_t>((kind >> 2) % 6);     // the range starts just before the end of a block
                    for (size_t i = 0; i < pad; ++i) d.push_back(CT('#'));
                    for (CT c : arg) d.push_back(c);
                    for (size_t i = 0; i < pad; ++i) d.pop_front();
                    SIM_PROBE("random_access_range_that_is_not_contiguous");
                    f(d.cbegin(), d.cend());
                }
                break;
            case 2:
                {
                    Str r(arg.rbegin(), arg.rend());
                    auto hp = heap(r, false);
                    SIM_PROBE("random_access_range_that_is_not_contiguous");
                    f(std::reverse_iterator<const CT*>(hp.get() + r.size()), std::reverse_iterator<const CT*>(hp.get()));
                }
                break;
            default: { std::vector<CT> v(arg.begin(), arg.end()); f(v.begin(), v.end()); } break;
            }
        }
        // The counted source [data()+ak, +an) of an aliasing call.  The object gets the pointer into itself; the model gets a
        // copy of those characters taken before the call, so that its result is the "as if the source had been copied first"
        // result by construction (libstdc++'s own handling of a source that runs over the terminator is not dependable).
        template <class Side, class T> static const CT* own_chars(const Side&, T& t, size_t ak, size_t an, Str& hold)
        {
            if (!Side::is_model) return static_cast<const CT*>(t.data()) + ak;
            hold.assign(static_cast<const CT*>(t.data()) + ak, an);
            return hold.data();
        }
        // one aliasing source in four runs over the string's own terminator (a readable NUL character)
        bool over_terminator(const Step& st) const { return nul_on && LAYOUT != L_STRLEN && ((st.d >> 12) & 3) == 0; }
        // a single-pass range over arg whose category is input_iterator_tag itself or a tag derived from it
        template <class F> static void with_single_pass(uint64_t kind, const Str& arg, F f)
        {
            SPState<CT> sp{arg.data(), 0, arg.size()};
            SIM_PROBE("single_pass_input_range");
            if (kind & 16) f(SinglePass<CT, derived_input_tag>(&sp), SinglePass<CT, derived_input_tag>());
            else f(SinglePass<CT>(&sp), SinglePass<CT>());
        }
        // C02 only: one range in sixteen is a generated range of 2^32 + k elements, k small enough to fit.  No string can
        // take it: the model "throws" length_error without looking at it, the object must do the same - at once and unchanged
        bool huge_range(uint64_t kind) const { return Throwing && mode == M_C02 && ((kind >> 5) & 15) == 15; }
        template <class Side, class F> void with_range_c02(const Side& side, uint64_t kind, const Str& arg, size_t fits, F f)
        {
            if (!huge_range(kind)) { with_range(kind, arg, f); return; }
            SIM_PROBE("generated_range_of_more_than_2^32_elements");
            if (Side::is_model) throw std::length_error("generated range longer than any string");
            (void)side;
            f(Counting<CT>(0), Counting<CT>((uint64_t(1) << 32) + fits));
        }
        static bool has_nul(const Str& s) { return s.find(CT()) != Str::npos; }
        // std::basic_string arguments carry their length: embedded NULs in them are ordinary characters
        // (except in the whole-string constructor and assign(const string_type&), which follow the C-string convention: modelled, 4.1)
        static bool sv(unsigned v, unsigned a, unsigned b, unsigned c) { return v == a || v == b || v == c; }
        // exact-size heap copy: ASan sees one byte too many
        static std::unique_ptr<CT[]> heap(const Str& s, bool terminated)
        {
            std::unique_ptr<CT[]> p(new CT[s.size() + (terminated ? 1 : 0) + (s.empty() && !terminated ? 1 : 0)]);
            std::copy(s.begin(), s.end(), p.get());
            if (terminated) p[s.size()] = CT();
            return p;
        }
        int partner(int s, uint64_t raw, bool may_alias = true)
        {
            int p = static_cast<int>(raw % 3);
            if (p == s && !(alias_on && may_alias)) p = (s + 1) % 3;
            return p;
        }

        // ---- the two sides a generic operation is applied to ------------------------------
        struct XS
        {
            World* w; int s;
            static constexpr bool is_model = false;
            using Self = FS;
            FS& at(int i) const { return w->slot[i].get(); }
            FS& tgt() const { return at(s); }
            template <class T> static T&& mv(T& x) { return std::move(x); }
            template <class... A> void construct(A&&... a) const
            {
                Slot<FS>& sl = w->slot[s];
                sl.prepare(w->env, w->env.next());     // dirty memory under the new object
                try { new (sl.ptr()) FS(std::forward<A>(a)...); }
                catch (...) { new (sl.ptr()) FS(); throw; }
            }
            Ret rv(uint64_t v) const { Ret r; r.has_v = true; r.v = v; return r; }
            Ret rs(const FS& f) const
            {
                size_t n = f.size();
                if (n > N) w->viol(w->mode == M_C02 ? "C02" : "C01", "model", "ret-size", "returned string reports size " + std::to_string(n) + " > N");
                if (f.data()[n] != CT()) w->viol("C01", "model", "ret-terminator", "returned string is not terminated at data()[size()]");
                Ret r; r.set_str(f.data(), n); return r;
            }
        };
        struct MS
        {
            World* w; int s; Str* trial;
            static constexpr bool is_model = true;
            using Self = Str;
            Str& at(int i) const { return i == s ? *trial : w->model[i]; }
            Str& tgt() const { return *trial; }
            template <class T> static const T& mv(T& x) { return x; }
            template <class... A> void construct(A&&... a) const { *trial = Str(std::forward<A>(a)...); }
            Ret rv(uint64_t v) const { Ret r; r.has_v = true; r.v = v; return r; }
            Ret rs(const Str& f) const { Ret r; r.set_str(f.data(), f.size()); return r; }
        };

        void skip(const char* why) { stats().add(std::string("skipped.") + why); }

        // Applies f to a trial copy of the model first (prediction), then to the real object.
        template <class F>
        void mutate(int s, F f, bool changes, bool is_ctor = false)
        {
            last_add = 0;
            last_threw = false;
            Str trial = model[s];
            Ret mr;
            Exc expect = E_OK;
            try { mr = f(MS{this, s, &trial}); }
            catch (const std::out_of_range&) { expect = E_OOR; }
            catch (const std::length_error&) { expect = E_LEN; }
            size_t need = std::max(trial.size(), mr.has_str ? mr.s16.size() : size_t(0));
            if (expect == E_OK && need > N) expect = E_LEN;
            // a bad position is rejected by std::basic_string too (out_of_range), so under the throwing policy it belongs to the
            // refinement property as well; exceeding the capacity is the containment property's business only
            bool executable = Throwing && (mode == M_C02 || (mode == M_C01 && expect == E_OOR && trial.size() <= N));
            if (expect != E_OK && !executable) { skip(expect == E_LEN ? "over_capacity" : "bad_position"); return; }
            size_t add = last_add;
            Exc got = E_OK;
            Ret xr;
            std::string what;
            try { xr = f(XS{this, s}); }
            catch (const std::length_error& e) { got = E_LEN; what = e.what(); }
            catch (const std::out_of_range& e) { got = E_OOR; what = e.what(); }
            catch (const Abandon&) { throw; }
            catch (const Violation&) { throw; }
            catch (const std::exception& e) { got = E_OTHER; what = e.what(); }
            last_threw = got != E_OK;
            run.dig(static_cast<uint64_t>(got));
            if (got != expect)
            {
                bool both = expect == E_OOR && got == E_LEN && model[s].size() + add > N;
                if (!both)
                {
                    const char* owner = (expect == E_OK) ? "C01" : (expect == E_OOR ? prop : "C02");
                    viol(owner, "exception", "exc", std::string("expected ") + exc_name(expect) + ", got " + exc_name(got) +
                         (what.empty() ? "" : " (" + what + ")") + "; target before the call " + show(model[s]));
                }
            }
            if (got != E_OK)
            {
                if (expect == E_LEN) SIM_PROBE("length_error_observed"); else SIM_PROBE("out_of_range_observed");
                if (model[s].size() == N) SIM_PROBE("exception_at_len_N");
                if (model[s].size() + 1 == N) SIM_PROBE("exception_at_len_N-1");
                if (is_ctor) model[s].clear();
                ++run.changing;
            }
            else
            {
                if (mr.has_v && (!xr.has_v || xr.v != mr.v))
                    viol("C01", "model", "ret", "returned " + std::to_string(static_cast<long long>(xr.v)) + ", std::basic_string returns " +
                         std::to_string(static_cast<long long>(mr.v)) + "; target " + show(model[s]));
                if (mr.has_str && (!xr.has_str || xr.s16 != mr.s16))
                    viol("C01", "model", "ret", "returned string of " + std::to_string(xr.s16.size()) + " chars differs from std::basic_string's (" +
                         std::to_string(mr.s16.size()) + " chars); target " + show(model[s]));
                if (changes) { if (trial != model[s] || is_ctor) ++run.changing; model[s] = trial; }
                settle_alt(s);
                if (xr.has_v) run.dig(xr.v);
                if (xr.has_str) run.dig(xr.s16.data(), xr.s16.size() * 4);
            }
            if (model[s].size() == N) SIM_PROBE("reached_len_N");
            check_all();
        }

        // ---- invariants ------------------------------------------------------------------
        void check_slot(int i)
        {
            FS& x = slot[i].get();
            const FS& cx = x;
            const Str& m = model[i];
            const char* so = state_owner();
            std::string who = "slot " + std::to_string(i) + ": ";
            if (!slot[i].canaries_ok())
                viol(mode == M_C14 ? "C02" : prop, "containment", "canary", who + "bytes outside the object were overwritten");
            size_t xs = cx.size();
            if (xs != m.size()) viol(so, "invariant", "size", who + "size() == " + std::to_string(xs) + ", model has " + show(m));
            if (cx.length() != m.size()) viol(so, "invariant", "size", who + "length() != size()");
            if (cx.empty() != m.empty()) viol(so, "invariant", "size", who + "empty() disagrees with size()");
            if (cx.max_size() != N) viol(so, "invariant", "size", who + "max_size() != N");
            const CT* d = cx.data();
            for (size_t k = 0; k < xs; ++k)
                if (d[k] != m[k]) viol(so, "invariant", "content", who + "character " + std::to_string(k) + " differs; model has " + show(m));
            if (d[xs] != CT()) viol(so, "invariant", "terminator", who + "data()[size()] is not NUL");
            if (cx.c_str() != d || x.data() != d) viol(so, "invariant", "data", who + "c_str()/data() disagree");
            if (static_cast<size_t>(x.end() - x.begin()) != xs || static_cast<size_t>(cx.end() - cx.begin()) != xs ||
                static_cast<size_t>(cx.cend() - cx.cbegin()) != xs || x.begin() != d)
                viol(so, "invariant", "iter", who + "end()-begin() != size()");
            size_t k = 0;
            for (auto it = cx.begin(); it != cx.end(); ++it, ++k)
                if (k >= xs || *it != m[k]) viol(so, "invariant", "iter", who + "forward iteration differs at " + std::to_string(k));
            if (k != xs) viol(so, "invariant", "iter", who + "forward iteration visits " + std::to_string(k) + " elements");
            k = xs;
            for (auto it = cx.rbegin(); it != cx.rend(); ++it)
            {
                if (k == 0 || *it != m[k - 1]) viol(so, "invariant", "iter", who + "reverse iteration differs");
                --k;
            }
            if (k != 0) viol(so, "invariant", "iter", who + "reverse iteration stops early");
            k = xs;
            for (auto it = x.crbegin(); it != x.crend(); ++it) --k;
            if (k != 0 || static_cast<size_t>(x.rend() - x.rbegin()) != xs) viol(so, "invariant", "iter", who + "crbegin/crend range wrong");
            if (mode == M_C14)
            {
                size_t h = std::hash<FS>()(cx);
                if (is_char)
                {
                    uint64_t want = ref::murmur64a(reinterpret_cast<const unsigned char*>(m.data()), m.size(), 0xc70f6907UL);
                    if (h != want) viol("C14", "model", "hash-ref", who + "std::hash differs from reference MurmurHash64A of the characters " + show(m));
                }
                run.dig(static_cast<uint64_t>(h));
            }
            run.dig(m.data(), m.size() * sizeof(CT));
        }
        void check_all() { for (int i = 0; i < 3; ++i) check_slot(i); }

        bool stale(int i)
        {
            const CT* d = slot[i].get().data();
            for (size_t k = model[i].size() + 1; k < N; ++k) if (d[k] != CT()) return true;   // last element may hold the packed length
            return false;
        }

        struct Scope
        {
            std::string qual;
            StepScope sc;
            Scope(World& w, const Step& st, const char* family, const char* variant, int s, bool alias)
                : qual(alias ? std::string(variant) + ",alias" : std::string(variant) + "," + lenclass(w.model[s].size())), sc(w.run, st, qual.c_str())
            {
                w.tail = std::string(family) + "/" + qual;
                w.aliasing = alias;
                bool st_ = w.stale(s);
                w.run.abstract(mix(strhash(family), strhash(variant), strhash(lenclass(w.model[s].size())) ^ (st_ ? 0x55 : 0) ^ (has_nul(w.model[s]) ? 0xaa00 : 0) ^ (static_cast<uint64_t>(LAYOUT) << 20)));
                if (w.model[s].size() == N) SIM_PROBE("op_at_len_N");
                if (LAYOUT == L_STRLEN && st_) SIM_PROBE("strlen_layout_op_with_stale_bytes");
                if (alias) SIM_PROBE("aliasing_op");
                w.run.dig(strhash(family) ^ strhash(variant));
            }
        };
#define FS_VARIANTS(...) \
        static const char* const vn_[] = {__VA_ARGS__}; \
        const unsigned nv_ = sizeof(vn_) / sizeof(vn_[0]); \
        unsigned v = static_cast<unsigned>(st.d % nv_); (void)v
#define FS_SCOPE(family, alias) \
        Scope scope_(*this, st, family, vn_[v], s, alias); (void)scope_

        // ================================================================= operations


        Str alt; bool has_alt = false;   // second acceptable post-state (stream extraction failures)

        template <class G> static void with_il(size_t n, CT x, CT y, CT z, G g)
        {
            if (n % 3 == 0) g(IL{}); else if (n % 3 == 1) g(IL{x}); else g(IL{x, y, z});
        }
        static uint64_t sgn(int c) { return c < 0 ? 0 : (c == 0 ? 1 : 2); }
        CT nz(CT c) const { return (c == CT() && !nul_on) ? CT('q') : c; }

        void op_construct(const Step& st)
        {
            int s = st.actor % 3;
            int pi = partner(s, st.c, false);
            FS_VARIANTS("default", "count_ch", "self_pos_count", "self_pos", "string", "string_pos_count", "string_pos",
                        "ptr_count", "ptr", "ilist", "range", "copy", "move", "input_range");
            FS_SCOPE("construct", false);
            size_t plen = model[pi].size();
            size_t n = cnt_add(st.a, N);
            size_t nabs = v == 1 ? cnt_abs(st.a) : n;
            size_t ppos = pos_any(st.b, plen);
            size_t pcnt = cnt_clamp(st.a >> 5, plen - std::min(ppos, plen));
            Str arg = mkstr(st.b, n, v == 7 || v == 10 || v == 13 || sv(v, 5, 6, 6));
            size_t apos = pos_any(st.b >> 7, arg.size());
            size_t acnt = cnt_clamp(st.a >> 9, arg.size() - std::min(apos, arg.size()));
            CT ch = mkch(st.b, true);
            auto hp = heap(arg, v == 8);
            CT y = mkch(st.b >> 8, false), z = mkch(st.b >> 16, false);
            if (v == 0) { if (N == 255) SIM_PROBE("N255_default_constructed"); }
            mutate(s, [&](auto side) -> Ret {
                switch (v)
                {
                case 0: side.construct(); break;
                case 1: last_add = nabs; side.construct(nabs, ch); break;
                case 2: side.construct(side.at(pi), ppos, pcnt); break;
                case 3: side.construct(side.at(pi), ppos); break;
                case 4: side.construct(arg); break;
                case 5: side.construct(arg, apos, acnt); break;
                case 6: side.construct(arg, apos); break;
                case 7: last_add = n; side.construct(static_cast<const CT*>(hp.get()), n); break;
                case 8: side.construct(static_cast<const CT*>(hp.get())); break;
                case 9: with_il(n, nz(ch), y, z, [&](IL il) { side.construct(il); }); break;
                case 10: with_range(st.d, arg, [&](auto b, auto e) { side.construct(b, e); }); break;
                case 11: side.construct(side.at(pi)); break;
                case 12: side.construct(side.mv(side.at(pi))); break;
                default: last_add = n; with_single_pass(st.d, arg, [&](auto b, auto e) { side.construct(b, e); }); break;
                }
                return Ret();
            }, true, true);
        }

        void op_assign_op(const Step& st)
        {
            int s = st.actor % 3;
            int pi = partner(s, st.c);
            FS_VARIANTS("copy", "move", "ptr", "ch", "ilist", "string", "ptr_alias");
            if (v == 6 && !alias_on) v = 2;
            FS_SCOPE("assign_op", (pi == s && v < 2) || v == 6);
            size_t len = model[s].size();
            size_t n = cnt_add(st.a, N);
            Str arg = mkstr(st.b, n, false);
            auto hp = heap(arg, true);
            CT ch = nz(mkch(st.b, true)), y = mkch(st.b >> 8, false), z = mkch(st.b >> 16, false);
            size_t k = pos_in(st.a, len);
            mutate(s, [&](auto side) -> Ret {
                auto& t = side.tgt();
                switch (v)
                {
                case 0: t = side.at(pi); break;
                case 1: t = side.mv(side.at(pi)); break;
                case 2: t = static_cast<const CT*>(hp.get()); break;
                case 3: t = ch; break;
                case 4: with_il(n, ch, y, z, [&](IL il) { t = il; }); break;
                case 5: t = arg; break;
                default: t = t.c_str() + k; break;
                }
                return Ret();
            }, true);
        }

        void op_assign(const Step& st)
        {
            int s = st.actor % 3;
            int pi = partner(s, st.c);
            FS_VARIANTS("count_ch", "self_pos_count", "self_pos", "ptr_count", "ptr", "ilist", "range", "self", "self_move",
                        "string", "string_pos_count", "string_pos", "ptr_count_alias", "ptr_alias", "input_range", "count_own_char");
            if (v == 15 && (!alias_on || model[s].empty())) v = 0;
            if (v == 12 && !alias_on) v = 3;
            if (v == 13 && !alias_on) v = 4;
            bool uses_self = v == 1 || v == 2 || v == 7 || v == 8;
            FS_SCOPE("assign", (pi == s && uses_self) || v == 12 || v == 13 || v == 15);
            size_t plen = model[pi].size();
            size_t slen = model[s].size();
            size_t ak = pos_in(st.c >> 11, slen);
            size_t an = std::min(cnt_clamp(st.c >> 23, slen - ak), slen - ak);
            if (over_terminator(st)) { an = slen - ak + 1; SIM_PROBE("own_terminator_as_source_character"); }
            size_t n = cnt_add(st.a, N);
            size_t ppos = pos_any(st.b, plen);
            size_t pcnt = cnt_clamp(st.a >> 5, plen - std::min(ppos, plen));
            Str arg = mkstr(st.b, n, v == 3 || v == 6 || v == 14 || sv(v, 10, 11, 11));
            size_t apos = pos_any(st.b >> 7, arg.size());
            size_t acnt = cnt_clamp(st.a >> 9, arg.size() - std::min(apos, arg.size()));
            CT ch = mkch(st.b, true), y = mkch(st.b >> 8, false), z = mkch(st.b >> 16, false);
            if (LAYOUT == L_STRLEN) ch = nz(ch);
            auto hp = heap(arg, v == 4);
            mutate(s, [&](auto side) -> Ret {
                auto& t = side.tgt();
                switch (v)
                {
                case 0: { size_t na = cnt_abs(st.a); last_add = na; t.assign(na, ch); } break;
                case 1: t.assign(side.at(pi), ppos, pcnt); break;
                case 2: t.assign(side.at(pi), ppos); break;
                case 3: last_add = n; t.assign(static_cast<const CT*>(hp.get()), n); break;
                case 4: t.assign(static_cast<const CT*>(hp.get())); break;
                case 5: with_il(n, nz(ch), y, z, [&](IL il) { t.assign(il); }); break;
                case 6: with_range_c02(side, st.d, arg, static_cast<size_t>(st.b % (N + 1)), [&](auto b, auto e) { t.assign(b, e); }); break;
                case 7: t.assign(side.at(pi)); break;
                case 8: t.assign(side.mv(side.at(pi))); break;
                case 9: t.assign(arg); break;
                case 10: t.assign(arg, apos, acnt); break;
                case 11: t.assign(arg, apos); break;
                case 12: { Str hold; t.assign(own_chars(side, t, ak, an, hold), an); } break;
                case 13: t.assign(static_cast<const CT*>(t.c_str()) + ak); break;
                case 14: last_add = n; with_single_pass(st.d, arg, [&](auto b, auto e) { t.assign(b, e); }); break;
                default: last_add = n; t.assign(n, t[slen ? static_cast<size_t>((st.c >> 30) % slen) : 0]); break;
                }
                return Ret();
            }, true);
        }

        void op_access(const Step& st)
        {
            int s = st.actor % 3;
            FS_VARIANTS("at_read", "at_write", "at_const", "index_read", "index_write", "index_const", "front_read", "front_write",
                        "back_read", "back_write", "front_const", "back_const");
            FS_SCOPE("access", false);
            size_t len = model[s].size();
            bool is_at = v <= 2;
            if (!is_at && v >= 6 && len == 0) { skip("empty_front_back"); return; }
            size_t idx;
            if (is_at)
            {
                if (mode == M_C02) idx = pos_any(st.a, len);
                else if (mode == M_C01 && Throwing && (st.a & 7) == 7) { idx = len + ((st.a >> 3) & 1); SIM_PROBE("bad_position_under_C01"); }    // at(size()) and at(size()+1) throw
                else { if (len == 0) { skip("empty_at"); return; } idx = static_cast<size_t>(st.a % len); }
            }
            else if (v == 3 || v == 5) idx = pos_in(st.a, len);           // reading s[size()] is allowed
            else { if (len == 0) { skip("empty_index_write"); return; } idx = static_cast<size_t>(st.a % len); }
            CT ch = mkch(st.b, LAYOUT != L_STRLEN);
            if (LAYOUT == L_STRLEN) ch = nz(ch);
            bool writes = v == 1 || v == 4 || v == 7 || v == 9;
            mutate(s, [&](auto side) -> Ret {
                auto& t = side.tgt();
                const auto& ct = t;
                CT r;
                switch (v)
                {
                case 0: r = t.at(idx); break;
                case 1: t.at(idx) = ch; r = ct.at(idx); break;
                case 2: r = ct.at(idx); break;
                case 3: r = t[idx]; break;
                case 4: t[idx] = ch; r = ct[idx]; break;
                case 5: r = ct[idx]; break;
                case 6: r = t.front(); break;
                case 7: t.front() = ch; r = ct.front(); break;
                case 8: r = t.back(); break;
                case 9: t.back() = ch; r = ct.back(); break;
                case 10: r = ct.front(); break;
                default: r = ct.back(); break;
                }
                return side.rv(static_cast<uint64_t>(static_cast<typename std::make_unsigned<CT>::type>(r)));
            }, writes);
        }

        void op_iter_write(const Step& st)
        {
            int s = st.actor % 3;
            FS_VARIANTS("begin_plus", "rbegin_plus", "end_minus", "data_plus");
            FS_SCOPE("iter_write", false);
            size_t len = model[s].size();
            if (len == 0) { skip("empty_iter_write"); return; }
            size_t idx = static_cast<size_t>(st.a % len);
            CT ch = mkch(st.b, LAYOUT != L_STRLEN);
            if (LAYOUT == L_STRLEN) ch = nz(ch);
            mutate(s, [&](auto side) -> Ret {
                auto& t = side.tgt();
                switch (v)
                {
                case 0: *(t.begin() + static_cast<std::ptrdiff_t>(idx)) = ch; break;
                case 1: *(t.rbegin() + static_cast<std::ptrdiff_t>(idx)) = ch; break;
                case 2: *(t.end() - static_cast<std::ptrdiff_t>(idx) - 1) = ch; break;
                default: (&t[0])[idx] = ch; break;
                }
                return side.rv(static_cast<uint64_t>(t.end() - t.begin()));
            }, true);
        }

        void op_clear(const Step& st)
        {
            int s = st.actor % 3;
            FS_VARIANTS("clear");
            FS_SCOPE("clear", false);
            mutate(s, [&](auto side) -> Ret { side.tgt().clear(); return Ret(); }, true);
        }
        void op_push_back(const Step& st)
        {
            int s = st.actor % 3;
            FS_VARIANTS("push_back");
            FS_SCOPE("push_back", false);
            CT ch = mkch(st.b, LAYOUT != L_STRLEN);
            if (LAYOUT == L_STRLEN) ch = nz(ch);
            mutate(s, [&](auto side) -> Ret { last_add = 1; side.tgt().push_back(ch); return Ret(); }, true);
        }
        void op_pop_back(const Step& st)
        {
            int s = st.actor % 3;
            FS_VARIANTS("pop_back");
            FS_SCOPE("pop_back", false);
            if (model[s].empty()) { skip("empty_pop_back"); return; }
            mutate(s, [&](auto side) -> Ret { side.tgt().pop_back(); return Ret(); }, true);
        }
        void op_substr(const Step& st)
        {
            int s = st.actor % 3;
            FS_VARIANTS("pos_count", "pos", "none");
            FS_SCOPE("substr", false);
            size_t len = model[s].size();
            size_t pos = pos_any(st.a, len);
            size_t cnt = cnt_clamp(st.b, len - std::min(pos, len));
            mutate(s, [&](auto side) -> Ret {
                const auto& t = side.tgt();
                if (v == 0) return side.rs(t.substr(pos, cnt));
                if (v == 1) return side.rs(t.substr(pos));
                return side.rs(t.substr());
            }, false);
        }
        void op_copy(const Step& st)
        {
            int s = st.actor % 3;
            FS_VARIANTS("count_pos", "count");
            FS_SCOPE("copy", false);
            size_t len = model[s].size();
            size_t pos = v == 0 ? pos_any(st.a, len) : 0;
            size_t cnt = cnt_clamp(st.b, len - std::min(pos, len));
            size_t expect = pos <= len ? std::min(cnt, len - pos) : 0;
            mutate(s, [&](auto side) -> Ret {
                const auto& t = side.tgt();
                std::unique_ptr<CT[]> d(new CT[expect ? expect : 1]);   // exact size: one byte too many is an ASan report
                size_t r = v == 0 ? t.copy(d.get(), cnt, pos) : t.copy(d.get(), cnt);
                Ret x = side.rv(r);
                x.set_str(d.get(), std::min(r, expect));
                return x;
            }, false);
        }
        void op_resize(const Step& st)
        {
            int s = st.actor % 3;
            FS_VARIANTS("n", "n_ch", "n_own_char");
            if (v == 2 && (!alias_on || model[s].empty())) v = 1;
            FS_SCOPE("resize", v == 2);
            size_t len = model[s].size();
            size_t n = cnt_abs(st.a);
            CT ch = mkch(st.b, LAYOUT != L_STRLEN);
            if (LAYOUT == L_STRLEN) ch = nz(ch);
            if (n > len && LAYOUT == L_STRLEN) SIM_PROBE("strlen_layout_resize_grow");
            mutate(s, [&](auto side) -> Ret {
                auto& t = side.tgt();
                last_add = n > len ? n - len : 0;
                if (v == 1) t.resize(n, ch);
                else if (v == 2) t.resize(n, t[static_cast<size_t>((st.c >> 30) % len)]);
                else if (side.is_model) t.resize(n, CT(' '));   // documented: resize(n) pads with ' '
                else t.resize(n);
                return Ret();
            }, true);
        }
        void op_swap(const Step& st)
        {
            int s = st.actor % 3;
            FS_VARIANTS("member", "free", "self");
            int pi = v == 2 ? s : partner(s, st.c, false);
            FS_SCOPE("swap", pi == s);
            last_threw = false;
            FS& x = slot[s].get();
            FS& y = slot[pi].get();
            if (v == 1) { using std::swap; swap(x, y); } else x.swap(y);
            if (pi != s) { std::swap(model[s], model[pi]); ++run.changing; }
            check_all();
        }

        void op_insert(const Step& st)
        {
            int s = st.actor % 3;
            int pi = partner(s, st.c);
            FS_VARIANTS("idx_count_ch", "idx_ptr", "idx_ptr_count", "idx_self", "idx_self_idx_count", "idx_self_idx", "idx_string",
                        "idx_string_idx_count", "idx_string_idx", "it_ch", "it_count_ch", "it_ilist", "it_range",
                        "idx_ptr_count_alias", "idx_ptr_alias", "it_input_range", "idx_count_own_char", "it_own_char", "it_count_own_char");
            if (v == 13 && !alias_on) v = 2;
            if (v == 14 && !alias_on) v = 1;
            if (v >= 16 && (!alias_on || model[s].empty())) v = (v == 16 ? 0 : (v == 17 ? 9 : 10));
            bool uses_self = v >= 3 && v <= 5;
            FS_SCOPE("insert", (pi == s && uses_self) || v == 13 || v == 14 || v >= 16);
            size_t len = model[s].size(), room = N - std::min(len, N);
            size_t ak = pos_in(st.c >> 11, len);                                  // own characters [ak, ak+an) as the source
            if (Throwing && mode == M_C02 && v == 13 && ((st.d >> 14) & 3) == 0)
            {
                // The string is a field of a larger record and the counted source starts inside the string but runs on into
                // the fields behind it - valid memory of the caller, far more characters than any string of this capacity
                // can take.  The call has to be refused (length_error) without touching anything, whatever it does about
                // the aliasing first.
                struct Rec { FS s; CT behind[N + 24]; };
                std::unique_ptr<Rec> rec(new Rec);
                rec->s.assign(model[s].data(), model[s].size());
                for (size_t i = 0; i < N + 24; ++i) rec->behind[i] = nz(mkch(st.b + i * 977, false));
                size_t cnt = N + 2 + static_cast<size_t>(st.b % 8);
                size_t at = pos_in(st.a, len);
                bool refused = false;
                try { rec->s.insert(at, static_cast<const CT*>(rec->s.data()) + ak, cnt); }
                catch (const std::length_error&) { refused = true; }
                if (!refused) viol("C02", "exception", "exc", "insert of " + std::to_string(cnt) + " characters (source inside the string, running on into the caller's record) into a string of capacity " + std::to_string(N) + " was not refused");
                if (Str(rec->s.data(), rec->s.size()) != model[s]) viol("C02", "model", "unchanged", "a refused insert changed the string");
                SIM_PROBE("aliasing_source_runs_on_into_the_callers_record");
                check_all();
                return;
            }
            size_t an = std::min(cnt_clamp(st.c >> 23, len - ak), len - ak);
            if (over_terminator(st)) { an = len - ak + 1; SIM_PROBE("own_terminator_as_source_character"); }
            size_t idx = ((v >= 9 && v <= 12) || v == 15 || v >= 17) ? pos_in(st.a, len) : pos_any(st.a, len);
            size_t n = cnt_add(st.b, room);
            size_t ck = len ? static_cast<size_t>((st.c >> 30) % len) : 0;       // the fill character is the string's own character ck, passed as it is
            size_t plen = model[pi].size();
            size_t ppos = pos_any(st.b >> 9, plen);
            size_t pcnt = (mode == M_C02) ? cnt_clamp(st.b >> 13, plen - std::min(ppos, plen)) : std::min(cnt_clamp(st.b >> 13, plen - std::min(ppos, plen)), room);
            Str arg = mkstr(st.b, n, v == 2 || v == 12 || v == 15 || sv(v, 6, 7, 8));
            size_t apos = pos_any(st.b >> 7, arg.size());
            size_t acnt = cnt_clamp(st.a >> 9, arg.size() - std::min(apos, arg.size()));
            CT ch = mkch(st.c >> 3, LAYOUT != L_STRLEN), y = mkch(st.b >> 8, false), z = mkch(st.b >> 16, false);
            if (LAYOUT == L_STRLEN) ch = nz(ch);
            auto hp = heap(arg, v == 1);
            if (((v >= 9 && v <= 12) || v == 15) && idx == len) SIM_PROBE("iterator_insert_at_end");
            mutate(s, [&](auto side) -> Ret {
                auto& t = side.tgt();
                std::ptrdiff_t di = static_cast<std::ptrdiff_t>(idx);
                switch (v)
                {
                case 0: last_add = n; t.insert(idx, n, ch); break;
                case 1: last_add = n; t.insert(idx, static_cast<const CT*>(hp.get())); break;
                case 2: last_add = n; t.insert(idx, static_cast<const CT*>(hp.get()), n); break;
                case 3: last_add = plen; t.insert(idx, side.at(pi)); break;
                case 4: last_add = pcnt == npos ? plen : std::min(pcnt, plen); t.insert(idx, side.at(pi), ppos, pcnt); break;
                case 5: last_add = plen; t.insert(idx, side.at(pi), ppos); break;
                case 6: last_add = n; t.insert(idx, arg); break;
                case 7: last_add = n; t.insert(idx, arg, apos, acnt); break;
                case 8: last_add = n; t.insert(idx, arg, apos); break;
                case 9: { last_add = 1; auto it = t.insert(t.cbegin() + di, ch); return side.rv(static_cast<uint64_t>(it - t.begin())); }
                case 10: { last_add = n; auto it = t.insert(t.cbegin() + di, n, ch); return side.rv(static_cast<uint64_t>(it - t.begin())); }
                case 11: { uint64_t r = 0; last_add = 3; with_il(n, nz(ch), y, z, [&](IL il) { auto it = t.insert(t.cbegin() + di, il); r = static_cast<uint64_t>(it - t.begin()); }); return side.rv(r); }
                case 12: { last_add = n; uint64_t r = 0; with_range_c02(side, st.d, arg, static_cast<size_t>(st.c % (room + 1)), [&](auto b, auto e) { auto it = t.insert(t.cbegin() + di, b, e); r = static_cast<uint64_t>(it - t.begin()); }); return side.rv(r); }
                case 13: { last_add = an; Str hold; t.insert(idx, own_chars(side, t, ak, an, hold), an); } break;
                case 14: last_add = len - ak; t.insert(idx, static_cast<const CT*>(t.c_str()) + ak); break;
                case 15: { last_add = n; uint64_t r = 0;
                           with_single_pass(st.d, arg, [&](auto b, auto e) { auto it = t.insert(t.cbegin() + di, b, e); r = static_cast<uint64_t>(it - t.begin()); }); return side.rv(r); }
                case 16: last_add = n; t.insert(idx, n, t[ck]); break;
                case 17: { last_add = 1; auto it = t.insert(t.cbegin() + di, t[ck]); return side.rv(static_cast<uint64_t>(it - t.begin())); }
                default: { last_add = n; auto it = t.insert(t.cbegin() + di, n, t[ck]); return side.rv(static_cast<uint64_t>(it - t.begin())); }
                }
                return Ret();
            }, true);
        }

        void op_erase(const Step& st)
        {
            int s = st.actor % 3;
            FS_VARIANTS("idx_count", "idx", "none", "it", "it_it");
            FS_SCOPE("erase", false);
            size_t len = model[s].size();
            size_t idx = v >= 3 ? pos_in(st.a, len) : pos_any(st.a, len);
            size_t cnt = cnt_clamp(st.b, len - std::min(idx, len));
            if (v == 3) { if (len == 0) { skip("empty_erase_it"); return; } idx = static_cast<size_t>(st.a % len); }
            size_t last = idx + static_cast<size_t>((st.b >> 3) % (len - std::min(idx, len) + 1));
            if ((st.b & 7) == 0) last = idx;          // empty range
            if ((st.b & 7) == 1) last = len;
            mutate(s, [&](auto side) -> Ret {
                auto& t = side.tgt();
                switch (v)
                {
                case 0: t.erase(idx, cnt); break;
                case 1: t.erase(idx); break;
                case 2: t.erase(); break;
                case 3: { auto it = t.erase(t.cbegin() + static_cast<std::ptrdiff_t>(idx)); return side.rv(static_cast<uint64_t>(it - t.begin())); }
                default: { auto it = t.erase(t.cbegin() + static_cast<std::ptrdiff_t>(idx), t.cbegin() + static_cast<std::ptrdiff_t>(last));
                           return side.rv(static_cast<uint64_t>(it - t.begin())); }
                }
                return Ret();
            }, true);
        }

        void op_append(const Step& st)
        {
            int s = st.actor % 3;
            int pi = partner(s, st.c);
            FS_VARIANTS("count_ch", "self", "self_pos_count", "self_pos", "string", "string_pos_count", "string_pos", "ptr_count", "ptr",
                        "ilist", "range", "ptr_count_alias", "ptr_alias", "input_range", "count_own_char");
            if (v == 14 && (!alias_on || model[s].empty())) v = 0;
            if (v == 11 && !alias_on) v = 7;
            if (v == 12 && !alias_on) v = 8;
            bool uses_self = v >= 1 && v <= 3;
            FS_SCOPE("append", (pi == s && uses_self) || v == 11 || v == 12 || v == 14);
            size_t len = model[s].size(), room = N - std::min(len, N);
            size_t ak = pos_in(st.c >> 11, len);
            size_t an = std::min(cnt_clamp(st.c >> 23, len - ak), len - ak);
            if (over_terminator(st)) { an = len - ak + 1; SIM_PROBE("own_terminator_as_source_character"); }
            size_t n = cnt_add(st.b, room);
            size_t plen = model[pi].size();
            size_t ppos = pos_any(st.a, plen);
            size_t pcnt = (mode == M_C02) ? cnt_clamp(st.a >> 13, plen - std::min(ppos, plen)) : std::min(cnt_clamp(st.a >> 13, plen - std::min(ppos, plen)), room);
            Str arg = mkstr(st.b, n, v == 7 || v == 10 || v == 13 || sv(v, 4, 5, 6));
            size_t apos = pos_any(st.b >> 7, arg.size());
            size_t acnt = cnt_clamp(st.a >> 9, arg.size() - std::min(apos, arg.size()));
            CT ch = mkch(st.c >> 3, LAYOUT != L_STRLEN), y = mkch(st.b >> 8, false), z = mkch(st.b >> 16, false);
            if (LAYOUT == L_STRLEN) ch = nz(ch);
            auto hp = heap(arg, v == 8);
            mutate(s, [&](auto side) -> Ret {
                auto& t = side.tgt();
                switch (v)
                {
                case 0: last_add = n; t.append(n, ch); break;
                case 1: last_add = plen; t.append(side.at(pi)); break;
                case 2: last_add = pcnt == npos ? plen : std::min(pcnt, plen); t.append(side.at(pi), ppos, pcnt); break;
                case 3: last_add = plen; t.append(side.at(pi), ppos); break;
                case 4: last_add = n; t.append(arg); break;
                case 5: last_add = n; t.append(arg, apos, acnt); break;
                case 6: last_add = n; t.append(arg, apos); break;
                case 7: last_add = n; t.append(static_cast<const CT*>(hp.get()), n); break;
                case 8: last_add = n; t.append(static_cast<const CT*>(hp.get())); break;
                case 9: last_add = 3; with_il(n, nz(ch), y, z, [&](IL il) { t.append(il); }); break;
                case 10: last_add = n; with_range_c02(side, st.d, arg, static_cast<size_t>(st.c % (N + 1)), [&](auto b, auto e) { t.append(b, e); }); break;
                case 11: { last_add = an; Str hold; t.append(own_chars(side, t, ak, an, hold), an); } break;
                case 12: last_add = len - ak; t.append(static_cast<const CT*>(t.c_str()) + ak); break;
                case 13: last_add = n; with_single_pass(st.d, arg, [&](auto b, auto e) { t.append(b, e); }); break;
                default: last_add = n; t.append(n, t[len ? static_cast<size_t>((st.c >> 30) % len) : 0]); break;
                }
                return Ret();
            }, true);
        }

        void op_pluseq(const Step& st)
        {
            int s = st.actor % 3;
            int pi = partner(s, st.c);
            FS_VARIANTS("self", "string", "ch", "ptr", "ilist", "ptr_alias");
            if (v == 5 && !alias_on) v = 3;
            FS_SCOPE("pluseq", (pi == s && v == 0) || v == 5);
            size_t len = model[s].size(), room = N - std::min(len, N);
            size_t ak = pos_in(st.c >> 11, len);
            size_t n = cnt_add(st.b, room);
            Str arg = mkstr(st.b, n, sv(v, 1, 1, 1));
            CT ch = mkch(st.c >> 3, LAYOUT != L_STRLEN), y = mkch(st.b >> 8, false), z = mkch(st.b >> 16, false);
            if (LAYOUT == L_STRLEN) ch = nz(ch);
            auto hp = heap(arg, true);
            mutate(s, [&](auto side) -> Ret {
                auto& t = side.tgt();
                switch (v)
                {
                case 0: last_add = model[pi].size(); t += side.at(pi); break;
                case 1: last_add = n; t += arg; break;
                case 2: last_add = 1; t += ch; break;
                case 3: last_add = n; t += static_cast<const CT*>(hp.get()); break;
                case 4: last_add = 3; with_il(n, nz(ch), y, z, [&](IL il) { t += il; }); break;
                default: last_add = len - ak; t += static_cast<const CT*>(t.c_str()) + ak; break;
                }
                return Ret();
            }, true);
        }

        // an argument that resembles the target, so that comparisons and searches are not all trivially unequal
        Str similar(int s, uint64_t raw, bool allow_nul)
        {
            const Str& m = model[s];
            unsigned sel = raw & 7; raw >>= 3;
            size_t a = m.empty() ? 0 : static_cast<size_t>(raw % (m.size() + 1));
            size_t b = m.empty() ? 0 : static_cast<size_t>((raw >> 16) % (m.size() - a + 1));
            Str r;
            if (sel == 0) r = m;
            else if (sel == 1) r = m.substr(a, b);
            else if (sel == 2) r = m.substr(a, b) + mkstr(raw, 1 + raw % 2, false);
            else if (sel == 3) r = m.substr(0, a);
            else if (sel == 4) r = Str();
            else r = mkstr(raw, 1 + raw % 3, false);
            if (!allow_nul || !nul_on) r.erase(std::remove(r.begin(), r.end(), CT()), r.end());
            return r;
        }

        void op_compare(const Step& st)
        {
            int s = st.actor % 3;
            int pi = partner(s, st.c);
            FS_VARIANTS("self", "pos_count_self", "pos_count_self_pos_count", "pos_count_self_pos", "string", "pos_count_string",
                        "pos_count_string_pos_count", "pos_count_string_pos", "ptr", "pos_count_ptr", "pos_count_ptr_count", "own_ptr", "pos_count_own_ptr");
            if (v >= 11 && !alias_on) v -= 3;
            FS_SCOPE("compare", (pi == s && v <= 3) || v >= 11);
            size_t len = model[s].size();
            size_t p1 = pos_any(st.a, len), c1 = cnt_clamp(st.a >> 11, len - std::min(p1, len));
            size_t plen = model[pi].size();
            size_t p2 = pos_any(st.b, plen), c2 = cnt_clamp(st.b >> 11, plen - std::min(p2, plen));
            Str arg = similar(s, st.b >> 3, v == 10 || sv(v, 4, 5, 6) || sv(v, 7, 7, 7));
            size_t ap = pos_any(st.b >> 5, arg.size()), ac = cnt_clamp(st.b >> 17, arg.size() - std::min(ap, arg.size()));
            size_t pc = static_cast<size_t>((st.b >> 9) % (arg.size() + 1));
            auto hp = heap(arg, v != 10);
            mutate(s, [&](auto side) -> Ret {
                const auto& t = side.tgt();
                int r;
                switch (v)
                {
                case 0: r = t.compare(side.at(pi)); break;
                case 1: r = t.compare(p1, c1, side.at(pi)); break;
                case 2: r = t.compare(p1, c1, side.at(pi), p2, c2); break;
                case 3: r = t.compare(p1, c1, side.at(pi), p2); break;
                case 4: r = t.compare(arg); break;
                case 5: r = t.compare(p1, c1, arg); break;
                case 6: r = t.compare(p1, c1, arg, ap, ac); break;
                case 7: r = t.compare(p1, c1, arg, ap); break;
                case 8: r = t.compare(static_cast<const CT*>(hp.get())); break;
                case 9: r = t.compare(p1, c1, static_cast<const CT*>(hp.get())); break;
                case 10: r = t.compare(p1, c1, static_cast<const CT*>(hp.get()), pc); break;
                case 11: r = t.compare(t.c_str()); break;                       // its own characters up to the first NUL
                default: r = t.compare(p1, c1, t.c_str() + std::min(p1, t.size())); break;
                }
                return side.rv(sgn(r));
            }, false);
        }

        void op_replace(const Step& st)
        {
            int s = st.actor % 3;
            int pi = partner(s, st.c);
            FS_VARIANTS("pos_count_self", "it_it_self", "pos_count_self_pos_count", "pos_count_self_pos", "pos_count_string", "it_it_string",
                        "pos_count_string_pos_count", "pos_count_string_pos", "pos_count_ptr_count", "it_it_ptr_count", "pos_count_ptr",
                        "it_it_ptr", "pos_count_count_ch", "it_it_count_ch", "it_it_ilist", "it_it_range",
                        "pos_count_ptr_count_alias", "it_it_ptr_count_alias", "pos_count_ptr_alias", "it_it_ptr_alias", "it_it_input_range",
                        "pos_count_count_own_char", "it_it_count_own_char");
            if (v >= 21 && (!alias_on || model[s].empty())) v -= 9;
            if (v >= 16 && v <= 19 && !alias_on) v -= 8;
            bool uses_self = v <= 3;
            bool its = v == 1 || v == 5 || v == 9 || v == 11 || (v >= 13 && v <= 15) || v == 17 || v == 19 || v == 20 || v == 22;
            FS_SCOPE("replace", (pi == s && uses_self) || (v >= 16 && v <= 19) || v >= 21);
            size_t len = model[s].size();
            size_t ak = pos_in(st.c >> 21, len);
            size_t an = std::min(cnt_clamp(st.c >> 33, len - ak), len - ak);
            if (over_terminator(st)) { an = len - ak + 1; SIM_PROBE("own_terminator_as_source_character"); }
            size_t pos = its ? pos_in(st.a, len) : pos_any(st.a, len);
            size_t cnt = cnt_clamp(st.a >> 11, len - std::min(pos, len));
            size_t first = pos_in(st.a, len);
            size_t last = first + static_cast<size_t>((st.a >> 11) % (len - first + 1));
            if (((st.a >> 8) & 7) == 0) last = first;
            if (((st.a >> 8) & 7) == 1) last = len;
            size_t erased = its ? last - first : std::min(cnt, len - std::min(pos, len));
            size_t room = N - std::min(N, len - erased);
            size_t n = cnt_add(st.b, room);
            size_t plen = model[pi].size();
            size_t ppos = pos_any(st.b >> 9, plen);
            size_t pcnt = (mode == M_C02) ? cnt_clamp(st.b >> 13, plen - std::min(ppos, plen)) : std::min(cnt_clamp(st.b >> 13, plen - std::min(ppos, plen)), room);
            Str arg = mkstr(st.b, n, v == 8 || v == 9 || v == 15 || v == 20 || sv(v, 4, 5, 6) || sv(v, 7, 7, 7));
            size_t apos = pos_any(st.b >> 7, arg.size());
            size_t acnt = cnt_clamp(st.c >> 9, arg.size() - std::min(apos, arg.size()));
            CT ch = mkch(st.c >> 3, LAYOUT != L_STRLEN), y = mkch(st.b >> 8, false), z = mkch(st.b >> 16, false);
            if (LAYOUT == L_STRLEN) ch = nz(ch);
            auto hp = heap(arg, v == 10 || v == 11);
            if (its && first == last) SIM_PROBE("iterator_replace_empty_range");
            mutate(s, [&](auto side) -> Ret {
                auto& t = side.tgt();
                auto f = t.cbegin() + static_cast<std::ptrdiff_t>(first);
                auto l = t.cbegin() + static_cast<std::ptrdiff_t>(last);
                const CT* p = hp.get();
                last_add = n;
                switch (v)
                {
                case 0: last_add = plen; t.replace(pos, cnt, side.at(pi)); break;
                case 1: last_add = plen; t.replace(f, l, side.at(pi)); break;
                case 2: last_add = pcnt == npos ? plen : std::min(pcnt, plen); t.replace(pos, cnt, side.at(pi), ppos, pcnt); break;
                case 3: last_add = plen; t.replace(pos, cnt, side.at(pi), ppos); break;
                case 4: t.replace(pos, cnt, arg); break;
                case 5: t.replace(f, l, arg); break;
                case 6: t.replace(pos, cnt, arg, apos, acnt); break;
                case 7: t.replace(pos, cnt, arg, apos); break;
                case 8: t.replace(pos, cnt, p, n); break;
                case 9: t.replace(f, l, p, n); break;
                case 10: t.replace(pos, cnt, p); break;
                case 11: t.replace(f, l, p); break;
                case 12: t.replace(pos, cnt, n, ch); break;
                case 13: t.replace(f, l, n, ch); break;
                case 14: last_add = 3; with_il(n, nz(ch), y, z, [&](IL il) { t.replace(f, l, il); }); break;
                case 15: with_range_c02(side, st.d, arg, static_cast<size_t>(st.c % (N + 1)), [&](auto b, auto e) { t.replace(f, l, b, e); }); break;
                case 16: { last_add = an; Str hold; t.replace(pos, cnt, own_chars(side, t, ak, an, hold), an); } break;
                case 17: { last_add = an; Str hold; t.replace(f, l, own_chars(side, t, ak, an, hold), an); } break;
                case 18: last_add = len - ak; t.replace(pos, cnt, static_cast<const CT*>(t.c_str()) + ak); break;
                case 19: last_add = len - ak; t.replace(f, l, static_cast<const CT*>(t.c_str()) + ak); break;
                case 20: with_single_pass(st.d, arg, [&](auto b, auto e) { t.replace(f, l, b, e); }); break;
                case 21: t.replace(pos, cnt, n, t[len ? static_cast<size_t>((st.c >> 30) % len) : 0]); break;
                default: t.replace(f, l, n, t[len ? static_cast<size_t>((st.c >> 30) % len) : 0]); break;
                }
                return Ret();
            }, true);
        }

        template <class Call>
        void search(const Step& st, const char* family, Call call)
        {
            int s = st.actor % 3;
            int pi = partner(s, st.c);
            FS_VARIANTS("self_pos", "self", "string_pos", "string", "ptr_pos_count", "ptr_pos", "ptr", "ch_pos", "ch", "end_ptr_pos_count0");
            FS_SCOPE(family, pi == s && v <= 1);
            size_t len = model[s].size();
            size_t pos = pos_find(st.a, len);
            Str arg = similar(s, st.b, v == 4 || sv(v, 2, 3, 3));
            size_t pc = static_cast<size_t>((st.b >> 40) % (arg.size() + 1));
            if ((st.b >> 38) & 1) pc = arg.size();
            CT ch = arg.empty() ? mkch(st.b, false) : arg[0];
            auto hp = heap(arg, v != 4 && v != 9);
            std::unique_ptr<CT[]> exact(new CT[arg.size() ? arg.size() : 1]);      // an empty range [e, e+0) at the very end of an exact-size block
            if (v == 1 || v == 3 || v == 6 || v == 8) SIM_PROBE("search_with_defaulted_position");
            mutate(s, [&](auto side) -> Ret {
                const auto& t = side.tgt();
                const CT* p = hp.get();
                size_t r;
                switch (v)
                {
                case 0: r = call(t, side.at(pi), pos); break;
                case 1: r = call(t, side.at(pi)); break;
                case 2: r = call(t, arg, pos); break;
                case 3: r = call(t, arg); break;
                case 4: r = call(t, p, pos, pc); break;
                case 5: r = call(t, p, pos); break;
                case 6: r = call(t, p); break;
                case 7: r = call(t, ch, pos); break;
                case 8: r = call(t, ch); break;
                default: r = call(t, static_cast<const CT*>(exact.get()) + (arg.size() ? arg.size() : 1), pos, size_t(0)); break;
                }
                return side.rv(r);
            }, false);
        }
#define FS_SEARCH(name) void op_##name(const Step& st) { search(st, #name, [](const auto& t, auto&&... a) { return t.name(a...); }); }
        FS_SEARCH(find) FS_SEARCH(rfind) FS_SEARCH(find_first_of) FS_SEARCH(find_first_not_of) FS_SEARCH(find_last_of) FS_SEARCH(find_last_not_of)

        void op_concat(const Step& st)
        {
            int s = st.actor % 3;
            int pi = partner(s, st.c);
            FS_VARIANTS("fs_fs", "fs_ptr", "fs_ch", "ptr_fs", "ch_fs", "rfs_fs", "fs_rfs", "rfs_rfs", "rfs_ptr", "rfs_ch", "ptr_rfs", "ch_rfs");
            bool two = v == 0 || v == 5 || v == 6 || v == 7;
            FS_SCOPE("concat", pi == s && two);
            size_t len = model[s].size(), room = N - std::min(len, N);
            size_t n = cnt_add(st.b, room);
            Str arg = mkstr(st.b, n, false);
            CT ch = nz(mkch(st.c >> 3, false));
            auto hp = heap(arg, true);
            mutate(s, [&](auto side) -> Ret {
                auto& t = side.tgt();
                auto& q = side.at(pi);
                const CT* p = hp.get();
                last_add = two ? model[pi].size() : n;
                switch (v)
                {
                case 0: return side.rs(t + q);
                case 1: return side.rs(t + p);
                case 2: return side.rs(t + ch);
                case 3: return side.rs(p + t);
                case 4: return side.rs(ch + t);
                case 5: return side.rs(side.mv(t) + q);
                case 6: return side.rs(t + side.mv(q));
                case 7: return side.rs(side.mv(t) + side.mv(q));
                case 8: return side.rs(side.mv(t) + p);
                case 9: return side.rs(side.mv(t) + ch);
                case 10: return side.rs(p + side.mv(t));
                default: return side.rs(ch + side.mv(t));
                }
            }, false);
        }

        template <class A, class B> static bool rel(unsigned o, const A& a, const B& b)
        {
            switch (o)
            {
            case 0: return a == b;
            case 1: return a != b;
            case 2: return a < b;
            case 3: return a <= b;
            case 4: return a > b;
            default: return a >= b;
            }
        }
        void op_relop(const Step& st)
        {
            int s = st.actor % 3;
            int pi = partner(s, st.c);
            FS_VARIANTS("eq_fs_fs", "ne_fs_fs", "lt_fs_fs", "le_fs_fs", "gt_fs_fs", "ge_fs_fs", "eq_fs_ptr", "ne_fs_ptr", "lt_fs_ptr", "le_fs_ptr",
                        "gt_fs_ptr", "ge_fs_ptr", "eq_ptr_fs", "ne_ptr_fs", "lt_ptr_fs", "le_ptr_fs", "gt_ptr_fs", "ge_ptr_fs", "eq_fs_string",
                        "ne_fs_string", "lt_fs_string", "le_fs_string", "gt_fs_string", "ge_fs_string", "eq_string_fs", "ne_string_fs",
                        "lt_string_fs", "le_string_fs", "gt_string_fs", "ge_string_fs",
                        "eq_fs_ownptr", "ne_fs_ownptr", "lt_fs_ownptr", "le_fs_ownptr", "gt_fs_ownptr", "ge_fs_ownptr",
                        "eq_ownptr_fs", "ne_ownptr_fs", "lt_ownptr_fs", "le_ownptr_fs", "gt_ownptr_fs", "ge_ownptr_fs");
            if (v >= 30 && !alias_on) v -= 24;
            FS_SCOPE("relop", (pi == s && v < 6) || v >= 30);
            unsigned o = v % 6, shape = v / 6;
            Str arg = similar(s, st.b, sv(v, 3, 4, 4));
            auto hp = heap(arg, true);
            mutate(s, [&](auto side) -> Ret {
                const auto& t = side.tgt();
                const CT* p = hp.get();
                bool r;
                switch (shape)
                {
                case 0: r = rel(o, t, side.at(pi)); break;
                case 1: r = rel(o, t, p); break;
                case 2: r = rel(o, p, t); break;
                case 3: r = rel(o, t, arg); break;
                case 4: r = rel(o, arg, t); break;
                case 5: r = rel(o, t, t.c_str()); break;
                default: r = rel(o, t.c_str(), t); break;
                }
                return side.rv(r ? 1 : 0);
            }, false);
        }

        void op_to_string(const Step& st)
        {
            int s = st.actor % 3;
            FS_VARIANTS("conversion");
            FS_SCOPE("to_string", false);
            if (has_nul(model[s])) { skip("nul_truncating_path"); return; }
            mutate(s, [&](auto side) -> Ret {
                const auto& t = side.tgt();
                Str r = static_cast<Str>(t);
                Ret x; x.set_str(r.data(), r.size()); return x;
            }, false);
        }

        // ---- stream operations: char only -------------------------------------------------------
        void op_stream_out(const Step&, std::false_type) { skip("no_stream_for_char_type"); }
        void op_stream_in(const Step&, std::false_type) { skip("no_stream_for_char_type"); }
        void op_getline(const Step&, std::false_type) { skip("no_stream_for_char_type"); }

        void op_stream_out(const Step& st, std::true_type)
        {
            int s = st.actor % 3;
            FS_VARIANTS("insertion");
            FS_SCOPE("stream_out", false);
            if (has_nul(model[s])) { skip("nul_truncating_path"); return; }
            size_t len = model[s].size();
            std::streamsize w = (st.b & 3) == 0 ? static_cast<std::streamsize>((st.b >> 2) % (len + 4)) : 0;
            bool left = (st.b >> 20) & 1;
            size_t cap = st.fkind == FK_STREAM ? static_cast<size_t>(st.fk % (std::max<size_t>(len, static_cast<size_t>(w)) + 2)) : npos;
            OutBuf xb(cap), mb(cap);
            std::ostream xo(&xb), mo(&mb);
            xo.width(w); mo.width(w);
            if (left) { xo.setf(std::ios::left, std::ios::adjustfield); mo.setf(std::ios::left, std::ios::adjustfield); }
            last_threw = false;
            mo << model[s];
            xo << static_cast<const FS&>(slot[s].get());
            if (xo.width() != mo.width()) viol("C01", "model", "ret", "operator<< left the stream's field width at " + std::to_string(xo.width()) + ", std::string leaves " + std::to_string(mo.width()));
            // what follows in the same stream must come out as after a std::string
            mo << 'x' << 7; xo << 'x' << 7;
            if (xb.refused) { fstate().fired = true; SIM_PROBE("stream_sink_refused"); }
            if (xb.written != mb.written)
                viol("C01", "model", "ret", "operator<< wrote " + std::to_string(xb.written.size()) + " bytes, std::string writes " + std::to_string(mb.written.size()));
            if (xo.rdstate() != mo.rdstate()) viol("C01", "model", "ret", "stream state after operator<< differs from std::string's");
            run.dig(xb.written);
            check_all();
        }

        std::string mkcontent(uint64_t raw, char sep, bool spaces)
        {
            Rng r(mix(raw, 0x636f6e74, 3));
            std::string c;
            unsigned segs = static_cast<unsigned>(r.below(4));
            if (spaces && r.chance(1, 2)) c.append(1 + r.below(3), r.chance(1, 2) ? ' ' : '\n');
            for (unsigned i = 0; i < segs; ++i)
            {
                size_t l = cnt_add(r.next(), N);
                for (size_t k = 0; k < l; ++k) { char ch = static_cast<char>('a' + r.below(5)); if (ch == sep) ch = 'z'; c.push_back(ch); }
                if (i + 1 < segs || r.chance(1, 2)) c.push_back(sep);
            }
            return c;
        }
        struct StreamFault { size_t chunk, eof_after, throw_at; };
        StreamFault stream_fault(const Step& st, size_t n) const
        {
            StreamFault f{n + 1, npos, npos};
            if (st.fkind != FK_STREAM) return f;
            f.chunk = 1 + static_cast<size_t>(st.fk % 5);
            if ((st.fk >> 8) & 1) f.eof_after = static_cast<size_t>((st.fk >> 16) % (n + 1));
            if ((st.fk >> 9) & 1) f.throw_at = static_cast<size_t>((st.fk >> 32) % (n + 1));
            return f;
        }
        void note_alt_if(const Str&, const FS&) {}
        void note_alt_if(const Str& before, const Str& trial)
        {
            // a failed extraction may leave the target unchanged or empty; std::string picks one, either is accepted
            has_alt = true;
            alt = (trial == before) ? Str() : before;
        }
        void settle_alt(int s)
        {
            if (!has_alt) return;
            has_alt = false;
            const FS& x = slot[s].get();
            if (x.size() == alt.size() && std::equal(alt.begin(), alt.end(), x.data())) model[s] = alt;
        }

        void op_stream_in(const Step& st, std::true_type)
        {
            int s = st.actor % 3;
            FS_VARIANTS("extraction");
            FS_SCOPE("stream_in", false);
            std::string content = mkcontent(st.a, ' ', true);
            StreamFault f = stream_fault(st, content.size());
            InBuf xb(content, f.chunk, f.eof_after, f.throw_at), mb(content, f.chunk, f.eof_after, f.throw_at);
            std::istream xi(&xb), mi(&mb);
            Str before = model[s];
            stream_step(s, st, xb, xi, mi, before, [&](auto side, std::istream& is) { is >> side.tgt(); });
        }
        void op_getline(const Step& st, std::true_type)
        {
            int s = st.actor % 3;
            FS_VARIANTS("lvalue_delim", "rvalue_delim", "lvalue", "rvalue");
            FS_SCOPE("getline", false);
            const char seps[3] = {'\n', ',', 'a'};
            char sep = v < 2 ? seps[st.b % 3] : '\n';
            std::string content = mkcontent(st.a, sep, false);
            StreamFault f = stream_fault(st, content.size());
            InBuf xb(content, f.chunk, f.eof_after, f.throw_at), mb(content, f.chunk, f.eof_after, f.throw_at);
            std::istream xi(&xb), mi(&mb);
            Str before = model[s];
            stream_step(s, st, xb, xi, mi, before, [&](auto side, std::istream& is) {
                using std::getline;
                switch (v)
                {
                case 0: getline(is, side.tgt(), sep); break;
                case 1: getline(std::move(is), side.tgt(), sep); break;
                case 2: getline(is, side.tgt()); break;
                default: getline(std::move(is), side.tgt()); break;
                }
            });
        }
        template <class G>
        void stream_step(int s, const Step& st, InBuf& xb, std::istream& xi, std::istream& mi, const Str& before, G g)
        {
            mutate_stream(s, [&](auto side) -> Ret {
                std::istream& is = side.is_model ? mi : xi;
                g(side, is);
                if (is.fail()) this->note_alt_if(before, side.tgt());
                InBuf* b = static_cast<InBuf*>(is.rdbuf());
                return side.rv(static_cast<uint64_t>(is.rdstate()) | (static_cast<uint64_t>(b->consumed()) << 8));
            });
            if (st.fkind == FK_STREAM)
            {
                bool hit = xb.threw || (xb.avail < xb.content.size() && xb.consumed() >= xb.avail) || xb.chunk < xb.content.size();
                if (hit) fstate().fired = true;
                if (xb.threw) SIM_PROBE("stream_underflow_threw");
                if (xb.avail < xb.content.size() && xb.consumed() >= xb.avail) SIM_PROBE("stream_early_eof_reached");
                if (xb.chunk < xb.content.size()) SIM_PROBE("stream_short_reads");
            }
        }
        template <class F> void mutate_stream(int s, F f)
        {
            has_alt = false;
            mutate(s, f, true);
            has_alt = false;
        }

        // ---- C14: hashes ---------------------------------------------------------------------------
        template <class P> size_t hash_of_rebuilt(const Str& m)
        {
            Slot<P> sl;
            sl.prepare(env, env.next());
            new (sl.ptr()) P(m.data(), m.size());
            size_t h = std::hash<P>()(sl.get());
            sl.unguard();
            return h;
        }
        void cross_layout(int s, std::true_type)
        {
            const Str& m = model[s];
            size_t h = std::hash<FS>()(slot[s].get());
            using Big = xtl::xbasic_fixed_string<CT, N + 300, xtl::buffer | xtl::store_size>;   // size-field layout
            using Small = xtl::xbasic_fixed_string<CT, (N < 200 ? N + 3 : N), xtl::buffer | xtl::store_size>;
            using Numpy = xtl::xbasic_fixed_string<CT, N + 1, xtl::buffer>;                      // strlen layout
            if (hash_of_rebuilt<Big>(m) != h) viol("C14", "model", "hash-cross-layout", "equal strings in the size-field layout and this layout hash differently: " + show(m));
            if (hash_of_rebuilt<Small>(m) != h) viol("C14", "model", "hash-cross-layout", "equal strings with another capacity hash differently: " + show(m));
            if (!has_nul(m) && hash_of_rebuilt<Numpy>(m) != h) viol("C14", "model", "hash-cross-layout", "equal strings in the strlen layout and this layout hash differently: " + show(m));
        }
        void cross_layout(int s, std::false_type)
        {
            const Str& m = model[s];
            size_t h = std::hash<FS>()(slot[s].get());
            using Small = xtl::xbasic_fixed_string<CT, N + 3, xtl::buffer | xtl::store_size>;
            if (hash_of_rebuilt<Small>(m) != h) viol("C14", "model", "hash-cross-layout", "equal strings with another capacity hash differently: " + show(m));
        }

        void op_hash(const Step& st)
        {
            int s = st.actor % 3;
            FS_VARIANTS("detour_equal", "cross_layout", "bytes_api", "bytes_in_place", "bytes_long_or_null");
            FS_SCOPE("hash", false);
            if (mode != M_C14) { skip("hash_outside_c14"); return; }
            last_threw = false;
            const Str& m = model[s];
            stats().add("c14.hash_evaluations");
            if (v == 0)
            {
                // drive another slot to the same content through a detour that leaves different stale bytes
                int pi = (s + 1 + static_cast<int>(st.c % 2)) % 3;
                FS& y = slot[pi].get();
                CT junk = nz(mkch(st.b, false));
                y.assign(static_cast<size_t>(N), junk);
                if (st.b & 1) { y.clear(); for (size_t i = 0; i < m.size(); ++i) y.push_back(m[i]); }
                else y.assign(m.data(), m.size());
                model[pi] = m;
                ++run.changing;
                size_t hx = std::hash<FS>()(slot[s].get()), hy = std::hash<FS>()(y);
                if (hx != hy) viol("C14", "model", "hash-equal", "two equal strings reached by different histories hash differently: " + show(m));
                if (stale(pi)) SIM_PROBE("hash_with_stale_bytes");
                run.dig(static_cast<uint64_t>(hx));
            }
            else if (v == 1)
            {
                cross_layout(s, std::integral_constant<bool, is_char>());
                SIM_PROBE("hash_cross_layout");
            }
            else if (v == 4)
            {
                // (ii) pure half on buffers the strings do not provide: keys of 1000-4200 bytes in exact-size heap blocks, and
                // the empty key given as (nullptr, 0)
                uint64_t seed = (st.b & 3) == 0 ? 0 : st.b * 0x9e3779b97f4a7c15ULL;
                if ((st.a & 7) == 0)
                {
                    uint64_t want64 = ref::murmur64a(nullptr, 0, seed);
                    uint32_t want32 = ref::murmur2_32(nullptr, 0, static_cast<uint32_t>(seed));
                    if (xtl::hash_bytes(nullptr, 0, static_cast<size_t>(seed)) != want64 || xtl::murmur2_x64(nullptr, 0, seed) != want64)
                        viol("C14", "model", "murmur2_x64-ref", "the empty key given as (nullptr, 0) does not hash like any other empty key");
                    if (xtl::murmur2_x86(nullptr, 0, static_cast<uint32_t>(seed)) != want32)
                        viol("C14", "model", "murmur2_x86-ref", "the empty key given as (nullptr, 0) does not hash like any other empty key");
                    SIM_PROBE("hash_of_null_empty_key");
                }
                else
                {
                    size_t nbytes = 1000 + static_cast<size_t>((st.a >> 3) % 3200);
                    unsigned al = static_cast<unsigned>(st.c % 8);
                    std::unique_ptr<unsigned char[]> blk(new unsigned char[nbytes + al]);
                    Rng r(mix(st.b, 0x6c6f6e67, nbytes));
                    for (size_t i = 0; i < nbytes + al; ++i) blk[i] = r.byte();
                    const unsigned char* p = blk.get() + al;
                    if (xtl::hash_bytes(p, nbytes, static_cast<size_t>(seed)) != ref::murmur64a(p, nbytes, seed)) viol("C14", "model", "hash_bytes-ref", "hash_bytes differs from reference MurmurHash64A (length " + std::to_string(nbytes) + ")");
                    if (xtl::murmur2_x64(p, nbytes, seed) != ref::murmur64a(p, nbytes, seed)) viol("C14", "model", "murmur2_x64-ref", "murmur2_x64 differs from reference MurmurHash64A (length " + std::to_string(nbytes) + ")");
                    if (xtl::murmur2_x86(p, nbytes, static_cast<uint32_t>(seed)) != ref::murmur2_32(p, nbytes, static_cast<uint32_t>(seed))) viol("C14", "model", "murmur2_x86-ref", "murmur2_x86 differs from reference MurmurHash2 (length " + std::to_string(nbytes) + ")");
                    stats().add("c14.byte_hash_evaluations", 3);
                    SIM_PROBE("hash_of_long_key");
                }
            }
            else
            {
                // (ii) pure half, evaluated on simulated buffers: same bytes at every alignment, exact-size heap blocks
                size_t nbytes = m.size() * sizeof(CT);
                if (v == 2 && (st.a & 1)) nbytes = static_cast<size_t>((st.a >> 1) % (nbytes + 1));
                const unsigned char* src = reinterpret_cast<const unsigned char*>(v == 3 ? slot[s].get().data() : m.data());
                uint64_t seed = (st.b & 3) == 0 ? 0 : ((st.b & 3) == 1 ? 0xc70f6907UL : st.b * 0x9e3779b97f4a7c15ULL);
                uint64_t want64 = ref::murmur64a(src, nbytes, seed);
                uint32_t want32 = ref::murmur2_32(src, nbytes, static_cast<uint32_t>(seed));
                for (unsigned al = 0; al < 8; ++al)
                {
                    std::unique_ptr<unsigned char[]> blk;
                    const unsigned char* p = src;
                    if (v == 2)
                    {
                        blk.reset(new unsigned char[nbytes + al + (nbytes + al == 0 ? 1 : 0)]);
                        for (unsigned i = 0; i < al; ++i) blk[i] = env.byte();
                        std::memcpy(blk.get() + al, src, nbytes);
                        p = blk.get() + al;
                    }
                    else if (al > 0) break;
                    size_t hb = xtl::hash_bytes(p, nbytes, static_cast<size_t>(seed));
                    uint64_t h64 = xtl::murmur2_x64(p, nbytes, seed);
                    uint32_t h32 = xtl::murmur2_x86(p, nbytes, static_cast<uint32_t>(seed));
                    std::string at = " (length " + std::to_string(nbytes) + ", alignment " + std::to_string(al) + ")";
                    if (hb != want64) viol("C14", "model", "hash_bytes-ref", "hash_bytes differs from reference MurmurHash64A" + at);
                    if (h64 != want64) viol("C14", "model", "murmur2_x64-ref", "murmur2_x64 differs from reference MurmurHash64A" + at);
                    if (h32 != want32) viol("C14", "model", "murmur2_x86-ref", "murmur2_x86 differs from reference MurmurHash2" + at);
                    stats().add("c14.byte_hash_evaluations", 3);
                    run.dig(h64); run.dig(h32);
                }
                if (nbytes % 8 == 0 && nbytes) SIM_PROBE("hash_whole_blocks");
                if (nbytes >= 32) SIM_PROBE("hash_four_blocks_or_more");
            }
            check_all();
        }

        void op_fill(const Step& st)
        {
            int s = st.actor % 3;
            FS_VARIANTS("assign_count_ch");
            FS_SCOPE("fill", false);
            size_t n = N - ((st.a & 1) && N > 0 ? 1 : 0);
            CT ch = nz(mkch(st.b, false));
            mutate(s, [&](auto side) -> Ret { side.tgt().assign(n, ch); return Ret(); }, true);
        }

        void step(const Step& st)
        {
            using tag = std::integral_constant<bool, is_char>;
            switch (st.op)
            {
#define X(n) case OP_##n: FS_DISPATCH_##n; break;
#define FS_DISPATCH_stream_out op_stream_out(st, tag())
#define FS_DISPATCH_stream_in op_stream_in(st, tag())
#define FS_DISPATCH_getline op_getline(st, tag())
#define FS_DISPATCH_construct op_construct(st)
#define FS_DISPATCH_assign_op op_assign_op(st)
#define FS_DISPATCH_assign op_assign(st)
#define FS_DISPATCH_access op_access(st)
#define FS_DISPATCH_iter_write op_iter_write(st)
#define FS_DISPATCH_clear op_clear(st)
#define FS_DISPATCH_push_back op_push_back(st)
#define FS_DISPATCH_pop_back op_pop_back(st)
#define FS_DISPATCH_substr op_substr(st)
#define FS_DISPATCH_copy op_copy(st)
#define FS_DISPATCH_resize op_resize(st)
#define FS_DISPATCH_swap op_swap(st)
#define FS_DISPATCH_insert op_insert(st)
#define FS_DISPATCH_erase op_erase(st)
#define FS_DISPATCH_append op_append(st)
#define FS_DISPATCH_pluseq op_pluseq(st)
#define FS_DISPATCH_compare op_compare(st)
#define FS_DISPATCH_replace op_replace(st)
#define FS_DISPATCH_find op_find(st)
#define FS_DISPATCH_rfind op_rfind(st)
#define FS_DISPATCH_find_first_of op_find_first_of(st)
#define FS_DISPATCH_find_first_not_of op_find_first_not_of(st)
#define FS_DISPATCH_find_last_of op_find_last_of(st)
#define FS_DISPATCH_find_last_not_of op_find_last_not_of(st)
#define FS_DISPATCH_concat op_concat(st)
#define FS_DISPATCH_relop op_relop(st)
#define FS_DISPATCH_to_string op_to_string(st)
#define FS_DISPATCH_hash op_hash(st)
#define FS_DISPATCH_fill op_fill(st)
                FSTRING_OPS(X)
#undef X
            default: break;
            }
        }

        void run_all()
        {
            check_all();
            for (const Step& st : plan.steps)
            {
                size_t before = run.step;
                as_caller(run, st, [&] { step(st); });
                if (run.step == before) { StepScope sc(run, st, "noop"); }   // unknown op: still one tick
            }
            for (int i = 0; i < 3; ++i) slot[i].unguard();
        }
    };

    // ---- plan generation (independent of the instantiation) --------------------------------------
    inline void gen_plan(Plan& plan, Rng& cfg, Rng& pr, int /*tier*/, bool is_char)
    {
        int mode = plan.workload == "c02" ? M_C02 : (plan.workload == "c14" ? M_C14 : M_C01);
        size_t n = 1;
        while (n < 40 && cfg.below(12) != 0) ++n;          // geometric, mean ~12, capped
        plan.params.push_back(n);
        plan.params.push_back(cfg.below(3) == 0 ? 1 : 0);     // [1] aliasing arguments
        plan.params.push_back(cfg.below(8) == 0 ? 1 : 0);     // [2] embedded NUL through counted overloads
        plan.params.push_back(cfg.below(3));                  // [3] reserved
        plan.params.push_back(cfg.below(2));                  // [4] stream faults
        unsigned w[OP_COUNT];
        for (unsigned i = 0; i < OP_COUNT; ++i) w[i] = 4;
        w[OP_insert] = w[OP_replace] = w[OP_append] = w[OP_assign] = w[OP_erase] = 8;
        w[OP_construct] = 6;
        w[OP_clear] = 2; w[OP_to_string] = 2; w[OP_pop_back] = 3;
        w[OP_hash] = 0; w[OP_fill] = 2;
        if (!is_char) w[OP_stream_in] = w[OP_stream_out] = w[OP_getline] = 0;
        if (mode == M_C02)
        {
            const int pos_taking[] = {OP_access, OP_assign, OP_substr, OP_copy, OP_insert, OP_erase, OP_append, OP_compare, OP_replace,
                                      OP_construct, OP_push_back, OP_resize, OP_pluseq, OP_concat};
            for (unsigned i = 0; i < OP_COUNT; ++i) w[i] = 1;
            for (int o : pos_taking) w[o] = 8;
            w[OP_fill] = 10; w[OP_hash] = 0;
            if (!is_char) w[OP_stream_in] = w[OP_stream_out] = w[OP_getline] = 0;
            else w[OP_stream_in] = w[OP_getline] = 3;
        }
        if (mode == M_C14) { w[OP_hash] = 40; w[OP_stream_in] = w[OP_stream_out] = w[OP_getline] = 0; w[OP_relop] = w[OP_compare] = 1; }
        // swarm: switch a random subset of families off for this run
        if (cfg.below(4) != 0)
            for (unsigned i = 0; i < OP_COUNT; ++i)
                if (i != OP_hash && i != OP_fill && cfg.below(4) == 0) w[i] = 0;
        unsigned total = 0;
        for (unsigned i = 0; i < OP_COUNT; ++i) total += w[i];
        if (total == 0) { w[OP_assign] = 1; total = 1; }
        for (size_t i = 0; i < n; ++i)
        {
            Step s;
            uint64_t pick = pr.below(total);
            for (unsigned o = 0; o < OP_COUNT; ++o) { if (pick < w[o]) { s.op = static_cast<int>(o); break; } pick -= w[o]; }
            s.actor = static_cast<int>(pr.below(3));
            s.a = pr.next() >> 20; s.b = pr.next() >> 20; s.c = pr.next() >> 20; s.d = pr.next() >> 40;
            if ((s.op == OP_stream_in || s.op == OP_getline || s.op == OP_stream_out) && plan.params[4] && pr.below(2) == 0)
            {
                s.fkind = FK_STREAM;
                s.fk = pr.next() >> 16;
            }
            plan.steps.push_back(s);
        }
    }

    template <class W>
    void exec_world(const Plan& plan, Run& run)
    {
        std::unique_ptr<W> w(new W(run, plan));
        try { w->run_all(); }
        catch (const Abandon&) { stats().add("runs_abandoned_at_foreign_oracle"); for (int i = 0; i < 3; ++i) w->slot[i].unguard(); }
        catch (...) { for (int i = 0; i < 3; ++i) w->slot[i].unguard(); throw; }
    }
}
#endif
