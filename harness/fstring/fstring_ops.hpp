// Operation families of the fixed-string harness.  The overload within a
// family is chosen by step.d modulo the family's variant count; its name goes
// into signatures and trace lines.
#ifndef FSTRING_OPS_HPP
#define FSTRING_OPS_HPP

#define FSTRING_OPS(X) \
    X(construct) X(assign_op) X(assign) X(access) X(iter_write) X(clear) X(push_back) X(pop_back) \
    X(substr) X(copy) X(resize) X(swap) X(insert) X(erase) X(append) X(pluseq) X(compare) X(replace) \
    X(find) X(rfind) X(find_first_of) X(find_first_not_of) X(find_last_of) X(find_last_not_of) \
    X(concat) X(relop) X(to_string) X(stream_out) X(stream_in) X(getline) X(hash) X(fill)

namespace fsops
{
#define X(n) OP_##n,
    enum Op { FSTRING_OPS(X) OP_COUNT };
#undef X
}

#endif
