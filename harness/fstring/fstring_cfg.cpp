// One instantiation of the fixed-string world.  Compiled once per configuration with
//   -DFS_NAME=... -DFS_CT=char -DFS_N=16 -DFS_LAYOUT=0|1|2 -DFS_THROW=0|1 [-DFS_THOROUGH]
#include "fstring_world.hpp"

#define FS_STR2(x) #x
#define FS_STR(x) FS_STR2(x)

namespace
{
    constexpr int k_st = (FS_LAYOUT == 2) ? int(xtl::buffer) : int(xtl::buffer | xtl::store_size);
#if FS_THROW
    using W = fsw::World<FS_CT, FS_N, k_st, xtl::string_policy::throwing_error, true, FS_LAYOUT>;
#else
    using W = fsw::World<FS_CT, FS_N, k_st, xtl::string_policy::silent_error, false, FS_LAYOUT>;
#endif
    void gen(sim::Plan& p, sim::Rng& c, sim::Rng& r, int tier) { fsw::gen_plan(p, c, r, tier, sizeof(FS_CT) == 1); }
    void exec(const sim::Plan& p, sim::Run& r) { fsw::exec_world<W>(p, r); }
#ifdef FS_THOROUGH
    sim::RegisterCfg reg(FS_STR(FS_NAME), gen, exec, FS_WEIGHT, true);
#else
    sim::RegisterCfg reg(FS_STR(FS_NAME), gen, exec, FS_WEIGHT, false);
#endif
}
