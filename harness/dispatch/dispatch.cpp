// harness `dispatch` — C17: multimethods and visitors call exactly the handler registered for the tuple of dynamic
// types, with the caller's own objects in registered order and the extra argument itself; when nothing is
// registered for that tuple the call reports an error and runs no handler.
#define SIMKIT_MAIN
#include "../../sim/simkit.hpp"

#include <functional>
#include <map>
#include <memory>
#include <stdexcept>
#include <tuple>
#include <typeindex>

#include "xtl/xmultimethods.hpp"
#include "xtl/xvisitor.hpp"

#define DISPATCH_OPS(X) X(insert) X(erase) X(dispatch) X(dispatch_registered) X(reinsert) X(copy)

namespace dops
{
#define X(n) OP_##n,
    enum Op { DISPATCH_OPS(X) OP_COUNT };
#undef X
}

namespace sim
{
    const char* const harness_name = "dispatch";
    const bool caller_threads_enabled = true;
#define X(n) #n,
    const char* const op_names[] = {DISPATCH_OPS(X)};
#undef X
    const int op_count = dops::OP_COUNT;
    const char* const fault_names[] = {"none", "throw", "alloc", "stream", "syscall", nullptr};
    bool workload_admits(const std::string&, const std::string&) { return true; }
    int enumerate_kind() { return 0; }
}

// Allocation seam: the k-th allocation made inside a registration (insert) may fail.  Everything else in the
// harness runs with faults suspended, so only the dispatcher's own allocations can fail.
void* operator new(std::size_t n)
{
    if (sim::fault_hit(sim::FK_ALLOC)) throw std::bad_alloc();
    void* p = std::malloc(n ? n : 1);
    if (!p) throw std::bad_alloc();
    return p;
}
void operator delete(void* p) noexcept { std::free(p); }
void operator delete(void* p, std::size_t) noexcept { std::free(p); }

// ---- the class hierarchy (namespace scope, so that type_info::before orders by name in every process) -----------
namespace dh
{
    struct Shape
    {
        virtual ~Shape() = default;
        XTL_IMPLEMENT_INDEXABLE_CLASS()
        int serial = 0;
    };
    struct A : Shape { XTL_IMPLEMENT_INDEXABLE_CLASS() };
    struct B : Shape { XTL_IMPLEMENT_INDEXABLE_CLASS() };
    // (the dispatch base of C is not its first base: converting between Shape& and C& moves the address)
    struct Named { virtual ~Named() = default; char name[24] = {0}; };
    struct C : Named, Shape { XTL_IMPLEMENT_INDEXABLE_CLASS() };
    struct D : A { XTL_IMPLEMENT_INDEXABLE_CLASS() };     // derived from a concrete class: exact-type lookup and dynamic_cast chains differ
    struct Extra { int payload = 0; };

    constexpr int NTYPES = 4;
    const char* const type_names[NTYPES] = {"A", "B", "C", "D"};
    template <int I> struct TypeAt;
    template <> struct TypeAt<0> { using type = A; };
    template <> struct TypeAt<1> { using type = B; };
    template <> struct TypeAt<2> { using type = C; };
    template <> struct TypeAt<3> { using type = D; };
    inline int type_id(const Shape& s)
    {
        if (typeid(s) == typeid(A)) return 0;
        if (typeid(s) == typeid(B)) return 1;
        if (typeid(s) == typeid(C)) return 2;
        if (typeid(s) == typeid(D)) return 3;
        return -1;
    }
    inline void reset_indices()
    {
        Shape::get_class_static_index() = SIZE_MAX; A::get_class_static_index() = SIZE_MAX; B::get_class_static_index() = SIZE_MAX;
        C::get_class_static_index() = SIZE_MAX; D::get_class_static_index() = SIZE_MAX;
    }

    // ---- visitor hierarchies --------------------------------------------------------------------------------------
    // a user-written catch-all policy: reports which visitor was unknown and returns an error value of its own
    struct CatchRecord { const void* visitor; };
    inline std::vector<CatchRecord>& catch_log() { static std::vector<CatchRecord> v; return v; }
    template <class R, class T>
    struct reporting_catch_all
    {
        static R on_unknown_visitor(T&, xtl::base_visitor& v) { catch_log().push_back(CatchRecord{&v}); return R(-77); }
    };
#define DH_VISITABLE_HIERARCHY(NS, CATCH, THROWING)                                                              \
    namespace NS                                                                                                 \
    {                                                                                                            \
        struct VRoot : xtl::base_visitable<int, false, CATCH> { XTL_DEFINE_VISITABLE() int serial = 0; };        \
        struct V1 : VRoot { XTL_DEFINE_VISITABLE() };                                                            \
        struct V2 : VRoot { XTL_DEFINE_VISITABLE() };                                                            \
        struct V3 : V1 { XTL_DEFINE_VISITABLE() };                                                               \
        struct CRoot : xtl::base_visitable<int, true, CATCH> { XTL_DEFINE_CONST_VISITABLE() int serial = 0; };   \
        struct C1 : CRoot { XTL_DEFINE_CONST_VISITABLE() };                                                      \
        struct C2 : CRoot { XTL_DEFINE_CONST_VISITABLE() };                                                      \
        struct C3 : C1 { XTL_DEFINE_CONST_VISITABLE() };                                                         \
        struct Types                                                                                             \
        {                                                                                                        \
            using R = VRoot; using T1 = V1; using T2 = V2; using T3 = V3;                                        \
            using CR = CRoot; using CT1 = C1; using CT2 = C2; using CT3 = C3;                                    \
            static constexpr bool throwing = THROWING;                                                           \
        };                                                                                                       \
    }
    DH_VISITABLE_HIERARCHY(vdefault, xtl::default_catch_all, false)
    DH_VISITABLE_HIERARCHY(vthrowing, xtl::throwing_catch_all, true)
    DH_VISITABLE_HIERARCHY(vreporting, reporting_catch_all, false)
    template <class HT> struct unknown_return { static constexpr int value = 0; static constexpr bool reports = false; };
    template <> struct unknown_return<vreporting::Types> { static constexpr int value = -77; static constexpr bool reports = true; };

    // cyclic
    struct Y1; struct Y2; struct Y3;
    struct CyclicVisitor : xtl::cyclic_visitor<xtl::mpl::vector<Y1, Y2, Y3>, int, false>
    {
        std::vector<std::pair<int, const void*>>* log = nullptr;
        int visit(Y1& y) override;
        int visit(Y2& y) override;
        int visit(Y3& y) override;
    };
    struct YRoot { virtual ~YRoot() = default; virtual int accept(CyclicVisitor&) = 0; };
    struct Y1 : YRoot { XTL_DEFINE_CYCLIC_VISITABLE(CyclicVisitor) };
    struct Y2 : YRoot { XTL_DEFINE_CYCLIC_VISITABLE(CyclicVisitor) };
    struct Y3 : Y1 { XTL_DEFINE_CYCLIC_VISITABLE(CyclicVisitor) };
    inline int CyclicVisitor::visit(Y1& y) { log->push_back({1, &y}); return 101; }
    inline int CyclicVisitor::visit(Y2& y) { log->push_back({2, &y}); return 102; }
    inline int CyclicVisitor::visit(Y3& y) { log->push_back({3, &y}); return 103; }

    struct Z1; struct Z2; struct Z3;
    struct ConstCyclicVisitor : xtl::cyclic_visitor<xtl::mpl::vector<Z1, Z2, Z3>, int, true>
    {
        std::vector<std::pair<int, const void*>>* log = nullptr;
        int visit(const Z1& z) override;
        int visit(const Z2& z) override;
        int visit(const Z3& z) override;
    };
    struct ZRoot { virtual ~ZRoot() = default; virtual int accept(ConstCyclicVisitor&) const = 0; };
    struct Z1 : ZRoot { XTL_DEFINE_CONST_CYCLIC_VISITABLE(ConstCyclicVisitor) };
    struct Z2 : ZRoot { XTL_DEFINE_CONST_CYCLIC_VISITABLE(ConstCyclicVisitor) };
    struct Z3 : Z1 { XTL_DEFINE_CONST_CYCLIC_VISITABLE(ConstCyclicVisitor) };
    inline int ConstCyclicVisitor::visit(const Z1& z) { log->push_back({1, &z}); return 101; }
    inline int ConstCyclicVisitor::visit(const Z2& z) { log->push_back({2, &z}); return 102; }
    inline int ConstCyclicVisitor::visit(const Z3& z) { log->push_back({3, &z}); return 103; }
}

namespace
{
    using namespace sim;
    using namespace dops;
    using namespace dh;
    namespace mpl = xtl::mpl;

    struct Call { int handler; std::vector<const void*> args; const void* extra; std::vector<const std::type_info*> statics; };
    inline const std::type_info& type_info_of(int t) { switch (t) { case 0: return typeid(A); case 1: return typeid(B); case 2: return typeid(C); default: return typeid(D); } }

    // only the registration call itself runs with faults enabled
    struct Active
    {
        int saved;
        Active() : saved(fstate().suspend) { fstate().suspend = 0; }
        ~Active() { fstate().suspend = saved; }
    };

    struct Pool
    {
        A a[2]; B b[2]; C c[2]; D d[2];
        Shape* obj(int type, int which) { switch (type) { case 0: return &a[which & 1]; case 1: return &b[which & 1]; case 2: return &c[which & 1]; default: return &d[which & 1]; } }
    };

    // ---- N-argument functor dispatchers ------------------------------------------------------------------------------
    template <size_t N> struct BaseList;
    template <> struct BaseList<1> { using type = mpl::vector<Shape>; };
    template <> struct BaseList<2> { using type = mpl::vector<Shape, Shape>; };
    template <> struct BaseList<3> { using type = mpl::vector<Shape, Shape, Shape>; };

    // what a handler returns: its id by value, or - for dispatchers declared with a reference return type - a
    // reference to one of a fixed set of token objects, which dispatch() has to hand back as that very object
    inline Extra* tokens() { static Extra t[256]; return t; }
    template <class RET> struct RetTraits;
    template <> struct RetTraits<int>
    {
        static int make(int id) { return id; }
        static int id_of(int r) { return r; }
    };
    template <> struct RetTraits<const Extra&>
    {
        static const Extra& make(int id) { return tokens()[id % 256]; }
        static int id_of(const Extra& r) { std::ptrdiff_t d = &r - tokens(); return (d >= 0 && d < 256) ? static_cast<int>(d) : -1; }
    };

    template <class RET = int>
    struct Recorder
    {
        std::vector<Call>* log;
        int id;
        static constexpr int moved_from = -424242;
        Recorder(std::vector<Call>* l, int i) : log(l), id(i) {}
        Recorder(const Recorder& o) : log(o.log), id(o.id) {}
        // moving from a functor takes its identity along (as moving from a std::function empties it): a dispatcher that
        // moves from the caller's own lvalue functor leaves the caller - and every later registration of it - without handler
        Recorder(Recorder&& o) noexcept : log(o.log), id(o.id) { o.id = moved_from; }
        Recorder& operator=(const Recorder&) = default;
        // a generic handler (callable with the base types as well): the static types it is called with are those it was
        // registered for - the dispatcher casts before it calls
        template <class... T> RET operator()(T&... args) const
        {
            size_t before = log->size();
            RET r = record(args...);
            if (log->size() == before + 1) log->back().statics = {&typeid(T)...};
            return r;
        }
        // the last argument is the undispatched extra
        RET record(Shape& a, Extra& e) const { log->push_back(Call{id, {&a}, &e}); return RetTraits<RET>::make(id); }
        RET record(Shape& a, Shape& b, Extra& e) const { log->push_back(Call{id, {&a, &b}, &e}); return RetTraits<RET>::make(id); }
        RET record(Shape& a, Shape& b, Shape& c, Extra& e) const { log->push_back(Call{id, {&a, &b, &c}, &e}); return RetTraits<RET>::make(id); }
    };

    template <size_t N, template <class, class> class CAST, template <class, class, class, class> class BACKEND, bool CAN_ERASE, class RET = int>
    struct FunctorWorld
    {
        using Disp = xtl::functor_dispatcher<typename BaseList<N>::type, RET, mpl::vector<Extra>, CAST, BACKEND>;
        using Rec = Recorder<RET>;
        using Key = std::array<int, N>;
        Run& run;
        const Plan& plan;
        Pool pool;
        Extra extra;
        std::unique_ptr<Disp> dp{new Disp};      // on the heap: a dispatcher that outlives the one it was copied from is a scenario
        std::map<Key, int> model;
        std::map<Key, std::pair<int, int>> uncertain;   // tuples whose last registration failed with bad_alloc: (previous handler or 0, attempted handler)
        std::vector<Call> log;
        std::string tail;
        int next_handler = 1;
        int pass_mode = 0;

        FunctorWorld(Run& r, const Plan& p) : run(r), plan(p) { reset_indices(); tail = "initial/-"; }
        [[noreturn]] void viol(const char* oracle, const std::string& msg) { fail("model", std::string("C17/") + oracle + "/" + plan.cfg + "/" + tail, msg); }
        static std::string key_name(const Key& k) { std::string s; for (size_t i = 0; i < N; ++i) { if (i) s += ","; s += type_names[k[i]]; } return s; }

        // runtime tuple of types -> template instantiation
        template <class... Done> struct Ins
        {
            // how the caller hands the functor over: as a const lvalue, as its own non-const lvalue (which it goes on using), or as an rvalue
            template <class W> static void go(W& w, const Key& k, typename W::Rec& rec, std::true_type)
            {
                (void)k;
                if (w.pass_mode == 1) w.dp->template insert<Done...>(rec);
                else if (w.pass_mode == 2) w.dp->template insert<Done...>(typename W::Rec(rec));
                else w.dp->template insert<Done...>(static_cast<const typename W::Rec&>(rec));
            }
            template <class W> static void go(W& w, const Key& k, typename W::Rec& rec, std::false_type)
            {
                constexpr size_t I = sizeof...(Done);
                using next = std::integral_constant<bool, I + 1 == N>;
                switch (k[I])
                {
                case 0: Ins<Done..., A>::go(w, k, rec, next()); break;
                case 1: Ins<Done..., B>::go(w, k, rec, next()); break;
                case 2: Ins<Done..., C>::go(w, k, rec, next()); break;
                default: Ins<Done..., D>::go(w, k, rec, next()); break;
                }
            }
        };
        template <class... Done> struct Era
        {
            template <class W> static void go(W& w, const Key& k, std::true_type) { (void)k; w.dp->template erase<Done...>(); }
            template <class W> static void go(W& w, const Key& k, std::false_type)
            {
                constexpr size_t I = sizeof...(Done);
                using next = std::integral_constant<bool, I + 1 == N>;
                switch (k[I])
                {
                case 0: Era<Done..., A>::go(w, k, next()); break;
                case 1: Era<Done..., B>::go(w, k, next()); break;
                case 2: Era<Done..., C>::go(w, k, next()); break;
                default: Era<Done..., D>::go(w, k, next()); break;
                }
            }
        };
        void do_erase(const Key& k, std::true_type) { Era<>::go(*this, k, std::false_type()); model.erase(k); uncertain.erase(k); }
        void do_erase(const Key&, std::false_type) {}
        void raw_erase(const Key& k, std::true_type) { Era<>::go(*this, k, std::false_type()); }     // the dispatcher only, not the model
        void raw_erase(const Key&, std::false_type) {}

        Key key_from(uint64_t raw) const { Key k; for (size_t i = 0; i < N; ++i) { k[i] = static_cast<int>(raw % NTYPES); raw /= NTYPES; } return k; }

        // the identity of what dispatch() returned (for reference returns: which token object, -1 for any other object)
        int call(Shape* o[3]) { return call_impl(o, std::integral_constant<size_t, N>()); }
        int call_impl(Shape* o[3], std::integral_constant<size_t, 1>) { return RetTraits<RET>::id_of(dp->dispatch(*o[0], extra)); }
        int call_impl(Shape* o[3], std::integral_constant<size_t, 2>) { return RetTraits<RET>::id_of(dp->dispatch(*o[0], *o[1], extra)); }
        int call_impl(Shape* o[3], std::integral_constant<size_t, 3>) { return RetTraits<RET>::id_of(dp->dispatch(*o[0], *o[1], *o[2], extra)); }

        void dispatch_key(const Key& k, uint64_t which)
        {
            Shape* o[3] = {nullptr, nullptr, nullptr};
            for (size_t i = 0; i < N; ++i) o[i] = pool.obj(k[i], static_cast<int>((which >> i) & 1));
            log.clear();
            bool error = false;
            int ret = 0;
            try { ret = call(o); }
            catch (const std::runtime_error&) { error = true; }
            catch (const std::bad_function_call&) { error = true; }
            auto un = uncertain.find(k);
            if (un != uncertain.end())
            {
                // the last registration for this tuple failed half-way: the property leaves open whether it took effect;
                // accepted are the previous handler, the attempted one, or (if there was no previous one) an error - never another handler
                int prev = un->second.first, tried = un->second.second;
                if (log.size() > 1) viol("wrong-handler", std::to_string(log.size()) + " handlers ran for one dispatch");
                if (log.size() == 1)
                {
                    if (log[0].handler != prev && log[0].handler != tried)
                        viol("wrong-handler", "after a failed registration for (" + key_name(k) + ") handler " + std::to_string(log[0].handler) + " ran; only " + std::to_string(prev) + " (previous) or " + std::to_string(tried) + " (attempted) are possible");
                    model[k] = log[0].handler;
                }
                else
                {
                    if (!error) viol("no-error", "no handler ran for (" + key_name(k) + ") and the call reported no error");
                    if (prev != 0) viol("spurious-error", "handler " + std::to_string(prev) + " was registered for (" + key_name(k) + ") before a failed re-registration, now the call reports an error");
                    model.erase(k);
                }
                uncertain.erase(un);
                SIM_PROBE("dispatch_after_failed_registration");
            }
            auto it = model.find(k);
            bool registered = it != model.end();
            if (!registered)
            {
                if (!log.empty()) viol("wrong-handler", "no handler is registered for (" + key_name(k) + ") but handler " + std::to_string(log[0].handler) + " ran");
                if (!error) viol("no-error", "no handler is registered for (" + key_name(k) + ") and the call reported no error");
                SIM_PROBE("dispatch_to_unregistered_tuple");
                bool perm = false;
                if (N >= 2) { Key p = k; std::swap(p[0], p[1]); perm = p != k && model.count(p); }
                if (perm) SIM_PROBE("only_other_permutation_registered");
            }
            else
            {
                if (error) viol("spurious-error", "handler " + std::to_string(it->second) + " is registered for (" + key_name(k) + ") but the call reported an error");
                if (log.size() != 1) viol("wrong-handler", std::to_string(log.size()) + " handlers ran for one dispatch");
                if (log[0].handler != it->second) viol("wrong-handler", "handler " + std::to_string(log[0].handler) + " ran for (" + key_name(k) + "), registered is " + std::to_string(it->second));
                if (ret != it->second % (std::is_reference<RET>::value ? 256 : 1 << 30)) viol("return", std::is_reference<RET>::value ? "dispatch() did not hand back the object the handler returned a reference to" : "the handler's return value was not passed back");
                for (size_t i = 0; i < N; ++i)
                    if (log[0].args[i] != static_cast<const void*>(o[i])) viol("arguments", "argument " + std::to_string(i) + " received by the handler is not the caller's object (wrong order or a copy)");
                if (log[0].extra != &extra) viol("arguments", "the undispatched extra argument was not passed through unchanged");
                for (size_t i = 0; i < N && i < log[0].statics.size(); ++i)
                    if (*log[0].statics[i] != type_info_of(k[i])) viol("arguments", "argument " + std::to_string(i) + " reached the handler with static type " + log[0].statics[i]->name() + ", not cast to the registered type " + type_names[k[i]]);
                SIM_PROBE("dispatch_to_registered_tuple");
                if (N == 3) SIM_PROBE("three_argument_dispatch");
            }
            run.dig(static_cast<uint64_t>(registered ? it->second : 0));
        }

        void step(const Step& st)
        {
            Key k = key_from(st.a);
            StepScope sc(run, st, plan.cfg.c_str());
            tail = std::string(op_name(st.op));
            run.abstract(mix(strhash(plan.cfg.c_str()), static_cast<uint64_t>(st.op), model.size() < 3 ? model.size() : 3));
            run.dig(static_cast<uint64_t>(st.op)); run.dig(st.a % 64);
            switch (st.op)
            {
            case OP_insert: case OP_reinsert:
                {
                    if (st.op == OP_reinsert && !model.empty()) { auto it = model.begin(); std::advance(it, static_cast<long>(st.b % model.size())); k = it->first; SIM_PROBE("handler_overwritten"); }
                    int id = next_handler++;
                    bool ok = true;
                    Rec rec{&log, id};
                    pass_mode = static_cast<int>((st.c >> 3) % 3);
                    try { Active a; Ins<>::go(*this, k, rec, std::false_type()); }
                    catch (const std::bad_alloc&) { ok = false; }
                    if (pass_mode == 1) SIM_PROBE("functor_registered_as_the_callers_own_lvalue");
                    pass_mode = 0;
                    if (rec.id != id) viol("functor", "the caller's functor, passed as an lvalue, was moved from by the registration");
                    if (ok) { model[k] = id; uncertain.erase(k); }
                    else
                    {
                        if (!fstate().fired) viol("exception", "bad_alloc without an injected allocation failure");
                        auto prev = model.find(k);
                        auto un = uncertain.find(k);
                        int p0 = prev != model.end() ? prev->second : 0;
                        // two failed registrations in a row: keep the first alternatives, the attempted handler becomes the newest
                        if (un == uncertain.end()) uncertain[k] = std::make_pair(p0, id);
                        else
                        {
                            // rare: settle by dispatching once (suspended), then record the new uncertainty
                            dispatch_key(k, 0);
                            auto now = model.find(k);
                            uncertain[k] = std::make_pair(now != model.end() ? now->second : 0, id);
                        }
                        SIM_PROBE("registration_failed_with_bad_alloc");
                    }
                    ++run.changing;
                }
                break;
            case OP_erase:
                if (CAN_ERASE)
                {
                    if (!model.empty() && (st.b & 1)) { auto it = model.begin(); std::advance(it, static_cast<long>((st.b >> 1) % model.size())); k = it->first; SIM_PROBE("registered_handler_erased"); }
                    do_erase(k, std::integral_constant<bool, CAN_ERASE>());
                    ++run.changing;
                }
                else stats().add("skipped.no_erase_in_fast_dispatcher");
                break;
            case OP_copy:
                {
                    // A dispatcher is a value: its copy answers like the original did at that moment and is independent of it -
                    // the original may be changed or destroyed afterwards.  (Done right after a dispatch more often than not:
                    // whatever the last lookup left behind in the original must not tie the copy to it.)
                    static const char* const vn[] = {"copy_then_destroy_original", "copy_then_change_and_destroy_original", "copy_assign_over_other_registrations", "move_construct",
                                                     "copy_then_erase_in_original", "copy_then_erase_in_copy"};
                    unsigned v = static_cast<unsigned>(st.b % 6);
                    if (!CAN_ERASE && v >= 4) v = (v == 4) ? 0 : 3;
                    // the fast dispatcher numbers the classes of a hierarchy once per process ("one fast dispatcher per hierarchy"):
                    // registering through two of them is outside the property, so its copies only replace the original
                    if (!CAN_ERASE && (v == 1 || v == 2)) v = (v == 1) ? 0 : 3;
                    tail = std::string("copy/") + vn[v];
                    if (!model.empty() && (st.c & 3)) { auto it = model.begin(); std::advance(it, static_cast<long>((st.c >> 2) % model.size())); dispatch_key(it->first, st.d); }
                    const int poison = 1 << 20;        // a handler that must never answer
                    std::unique_ptr<Disp> y;
                    if (v == 4 || v == 5)
                    {
                        // erasing is a change like any other: what is erased in one of the two must stay registered in the other
                        y.reset(new Disp(static_cast<const Disp&>(*dp)));
                        if (v == 5) dp.swap(y);                 // dp: the one erased from, y: the one that must not notice
                        for (const auto& kv : model) raw_erase(kv.first, std::integral_constant<bool, CAN_ERASE>());
                        SIM_PROBE("erased_in_one_of_two_copies");
                    }
                    else if (v == 0 || v == 1) y.reset(new Disp(static_cast<const Disp&>(*dp)));
                    else if (v == 3) y.reset(new Disp(std::move(*dp)));
                    else
                    {
                        y.reset(new Disp);
                        std::unique_ptr<Disp> keep(std::move(dp));
                        dp = std::move(y);
                        { Rec prec{&log, poison}; Ins<>::go(*this, k, prec, std::false_type()); }          // registered in the target of the assignment only
                        *dp = static_cast<const Disp&>(*keep);
                        y = std::move(dp);
                        dp = std::move(keep);
                    }
                    if (v == 1)
                        for (const auto& kv : model) { Rec prec{&log, poison}; Ins<>::go(*this, kv.first, prec, std::false_type()); }   // in the original only
                    dp.swap(y);
                    y.reset();                          // the original is gone
                    SIM_PROBE("dispatcher_copied");
                    ++run.changing;
                    // every registered tuple and a few others answer as before
                    for (const auto& kv : std::map<Key, int>(model)) dispatch_key(kv.first, st.d);
                    dispatch_key(k, st.d);
                }
                break;
            case OP_dispatch: dispatch_key(k, st.b); break;
            case OP_dispatch_registered:
                if (!model.empty()) { auto it = model.begin(); std::advance(it, static_cast<long>(st.c % model.size())); dispatch_key(it->first, st.b); }
                else dispatch_key(k, st.b);
                break;
            default: break;
            }
        }
        void run_all() { for (const Step& st : plan.steps) as_caller(run, st, [&] { step(st); }); }
    };

    // ---- static_dispatcher ---------------------------------------------------------------------------------------------
    struct Exec
    {
        std::vector<Call>* log;
        int calls = 0;           // the executor's own state: the handler has to run on the caller's executor, not on a copy of it
        template <class L, class R> int run(L& l, R& r)
        {
            ++calls;
            log->push_back(Call{100 + type_id(l) * 10 + type_id(r), {static_cast<Shape*>(&l), static_cast<Shape*>(&r)}, nullptr});
            // static types must be the dynamic types of the arguments
            if (typeid(L) != typeid(l) || typeid(R) != typeid(r)) log->back().handler = -1;
            return log->back().handler;
        }
        int on_error(Shape& l, Shape& r) { ++calls; log->push_back(Call{0, {&l, &r}, nullptr}); return 0; }
    };
    // RMODE 0: the right-hand list defaults to the left-hand one; 1: an explicitly different right-hand list over the same base
    template <class SYM, int RMODE = 0>
    struct StaticWorld
    {
        // C is deliberately not in the list: dispatching on it must end in on_error
        using List = mpl::vector<D, A, B>;      // most derived first, as the dynamic_cast chain requires
        using RList = mpl::vector<D, C, A>;     // used when RMODE == 1: B is missing on the right, C only dispatchable there
        using Disp = std::conditional_t<RMODE == 0, xtl::static_dispatcher<Exec, Shape, List, int, SYM>,
                                        xtl::static_dispatcher<Exec, Shape, List, int, SYM, Shape, RList>>;
        static constexpr bool symmetric = std::is_same<SYM, xtl::symmetric_dispatch>::value;
        static_assert(!(symmetric && RMODE != 0), "symmetric dispatch is only meaningful with one list");
        Run& run;
        const Plan& plan;
        Pool pool;
        std::vector<Call> log;
        std::string tail;
        StaticWorld(Run& r, const Plan& p) : run(r), plan(p) { tail = "dispatch"; }
        [[noreturn]] void viol(const char* oracle, const std::string& msg) { fail("model", std::string("C17/") + oracle + "/" + plan.cfg + "/" + tail, msg); }
        static int list_index(int t) { return t == 3 ? 0 : (t == 0 ? 1 : (t == 1 ? 2 : -1)); }
        static int rlist_index(int t) { if (RMODE == 0) return list_index(t); return t == 3 ? 0 : (t == 2 ? 1 : (t == 0 ? 2 : -1)); }
        void step(const Step& st)
        {
            StepScope sc(run, st, plan.cfg.c_str());
            int tl = static_cast<int>(st.a % NTYPES), tr = static_cast<int>((st.a / NTYPES) % NTYPES);
            run.abstract(mix(strhash(plan.cfg.c_str()), static_cast<uint64_t>(tl), static_cast<uint64_t>(tr)));
            Shape* l = pool.obj(tl, static_cast<int>(st.b & 1));
            Shape* r = pool.obj(tr, static_cast<int>((st.b >> 1) & 1));
            Exec ex{&log};
            log.clear();
            int ret = Disp::dispatch(*l, *r, ex);
            if (log.size() != 1) viol("wrong-handler", std::to_string(log.size()) + " executor entries ran for one dispatch");
            if (ex.calls != 1) viol("executor", "the handler did not run on the executor the caller passed (its state shows " + std::to_string(ex.calls) + " calls)");
            bool known = list_index(tl) >= 0 && rlist_index(tr) >= 0;
            const Call& c = log[0];
            if (!known)
            {
                if (c.handler != 0) viol("wrong-handler", std::string("(") + type_names[tl] + "," + type_names[tr] + ") is not dispatchable but run() was called");
                SIM_PROBE("static_dispatch_on_error");
            }
            else
            {
                if (c.handler == 0) viol("spurious-error", std::string("on_error was called for (") + type_names[tl] + "," + type_names[tr] + ")");
                if (c.handler == -1) viol("wrong-handler", "run() was called with static types that are not the dynamic types of the arguments");
                bool swapped = symmetric && list_index(tr) < list_index(tl);
                const void* want0 = swapped ? r : l; const void* want1 = swapped ? l : r;
                if (c.args[0] != want0 || c.args[1] != want1) viol("arguments", std::string("arguments were passed in the wrong order for (") + type_names[tl] + "," + type_names[tr] + ")" + (symmetric ? " under symmetric dispatch" : ""));
                int want_handler = swapped ? 100 + tr * 10 + tl : 100 + tl * 10 + tr;
                if (c.handler != want_handler || ret != want_handler) viol("wrong-handler", "run() overload for another pair of types was selected");
                if (swapped) SIM_PROBE("symmetric_swap_taken");
                if (symmetric && tl != tr)
                {
                    // dispatch(b, a) must reach the same handler
                    log.clear();
                    Disp::dispatch(*r, *l, ex);
                    if (log.size() != 1 || log[0].handler != want_handler) viol("symmetry", "dispatch(a,b) and dispatch(b,a) reach different handlers");
                    if (ex.calls != 2) viol("executor", "the handler of the mirrored call did not run on the executor the caller passed");
                }
                ++run.changing;
            }
            run.dig(static_cast<uint64_t>(c.handler));
        }
        void run_all() { for (const Step& st : plan.steps) as_caller(run, st, [&] { step(st); }); }
    };

    // ---- static_dispatcher over two different hierarchies (base_rhs and rhs_type_list given explicitly) -----------------------
    struct Color { virtual ~Color() = default; };
    struct Red : Color {};
    struct Green : Color {};
    struct Crimson : Red {};
    inline int color_id(const Color& c) { return typeid(c) == typeid(Red) ? 0 : (typeid(c) == typeid(Green) ? 1 : (typeid(c) == typeid(Crimson) ? 2 : -1)); }
    struct MixedExec
    {
        std::vector<Call>* log;
        // generic on purpose: a dispatcher that walks the wrong type list instantiates run() with arguments of the
        // other hierarchy; that must show up as a wrong handler at run time, not as a harness that does not compile
        static int cid(const Color& c) { return color_id(c); }
        static int cid(const Shape&) { return -50; }
        static int sid(const Shape& s) { return type_id(s); }
        static int sid(const Color&) { return -50; }
        static const void* base(const Shape& s) { return &s; }
        static const void* base(const Color& c) { return &c; }
        template <class L, class R> int run(L& l, R& r)
        {
            log->push_back(Call{100 + sid(l) * 10 + cid(r), {base(l), base(r)}, nullptr});
            if (typeid(L) != typeid(l) || typeid(R) != typeid(r) || !std::is_base_of<Shape, L>::value || !std::is_base_of<Color, R>::value) log->back().handler = -1;
            return log->back().handler;
        }
        int on_error(Shape& l, Color& r) { log->push_back(Call{0, {&l, &r}, nullptr}); return 0; }
    };
    struct StaticMixedWorld
    {
        using List = mpl::vector<D, A, B>;            // C missing on the left
        using RList = mpl::vector<Crimson, Red>;      // Green missing on the right
        using Disp = xtl::static_dispatcher<MixedExec, Shape, List, int, xtl::antisymmetric_dispatch, Color, RList>;
        Run& run;
        const Plan& plan;
        Pool pool;
        Red red[2]; Green green[2]; Crimson crimson[2];
        std::vector<Call> log;
        std::string tail;
        StaticMixedWorld(Run& r, const Plan& p) : run(r), plan(p) { tail = "dispatch"; }
        [[noreturn]] void viol(const char* oracle, const std::string& msg) { fail("model", std::string("C17/") + oracle + "/" + plan.cfg + "/" + tail, msg); }
        void step(const Step& st)
        {
            StepScope sc(run, st, plan.cfg.c_str());
            int tl = static_cast<int>(st.a % NTYPES), tr = static_cast<int>((st.a / NTYPES) % 3);
            static const char* const cn[3] = {"Red", "Green", "Crimson"};
            run.abstract(mix(strhash(plan.cfg.c_str()), static_cast<uint64_t>(tl), static_cast<uint64_t>(tr)));
            Shape* l = pool.obj(tl, static_cast<int>(st.b & 1));
            int w = static_cast<int>((st.b >> 1) & 1);
            Color* r = tr == 0 ? static_cast<Color*>(&red[w]) : (tr == 1 ? static_cast<Color*>(&green[w]) : static_cast<Color*>(&crimson[w]));
            MixedExec ex{&log};
            log.clear();
            int ret = Disp::dispatch(*l, *r, ex);
            if (log.size() != 1) viol("wrong-handler", std::to_string(log.size()) + " executor entries ran for one dispatch");
            bool known = tl != 2 && tr != 1;
            const Call& c = log[0];
            std::string pair = std::string("(") + type_names[tl] + "," + cn[tr] + ")";
            if (!known)
            {
                if (c.handler != 0) viol("wrong-handler", pair + " is not dispatchable but run() was called");
                SIM_PROBE("static_dispatch_on_error");
            }
            else
            {
                if (c.handler == 0) viol("spurious-error", "on_error was called for " + pair);
                if (c.handler == -1) viol("wrong-handler", "run() was called with static types that are not the dynamic types of the arguments");
                if (c.args[0] != static_cast<const void*>(l) || c.args[1] != static_cast<const void*>(r)) viol("arguments", "arguments were not the caller's objects in order for " + pair);
                int want = 100 + tl * 10 + tr;
                if (c.handler != want || ret != want) viol("wrong-handler", "run() overload for another pair of types was selected for " + pair);
                SIM_PROBE("static_dispatch_two_hierarchies");
                ++run.changing;
            }
            run.dig(static_cast<uint64_t>(c.handler));
        }
        void run_all() { for (const Step& st : plan.steps) as_caller(run, st, [&] { step(st); }); }
    };

    // ---- acyclic visitors -------------------------------------------------------------------------------------------------
    template <class HT>
    struct AcyclicWorld
    {
        using R = typename HT::R; using T1 = typename HT::T1; using T2 = typename HT::T2; using T3 = typename HT::T3;
        using Log = std::vector<std::pair<int, const void*>>;
        struct VisAll : xtl::base_visitor, xtl::visitor<mpl::vector<T1, T2, T3>, int, false>
        {
            Log* log;
            int visit(T1& x) override { log->push_back({1, &x}); return 101; }
            int visit(T2& x) override { log->push_back({2, &x}); return 102; }
            int visit(T3& x) override { log->push_back({3, &x}); return 103; }
        };
        struct Vis12 : xtl::base_visitor, xtl::visitor<mpl::vector<T1, T2>, int, false>
        {
            Log* log;
            int visit(T1& x) override { log->push_back({1, &x}); return 101; }
            int visit(T2& x) override { log->push_back({2, &x}); return 102; }
        };
        struct Vis3 : xtl::base_visitor, xtl::visitor<T3, int, false>
        {
            Log* log;
            int visit(T3& x) override { log->push_back({3, &x}); return 103; }
        };
        struct VisNone : xtl::base_visitor {};
        // a handler that itself throws - an exception type the dispatching layer might use internally, and an ordinary one
        struct VisThrows : xtl::base_visitor, xtl::visitor<mpl::vector<T1, T2>, int, false>
        {
            Log* log;
            int visit(T1& x) override { log->push_back({1, &x}); throw std::bad_cast(); }
            int visit(T2& x) override { log->push_back({2, &x}); throw std::logic_error("handler failed"); }
        };
        // a visitor of the other flavour: it declares visit(const T&) only, which is not a handler for accept() on a non-const object
        struct VisConstFlavour : xtl::base_visitor, xtl::visitor<mpl::vector<T1, T2>, int, true>
        {
            Log* log;
            int visit(const T1& x) override { log->push_back({1, &x}); return 101; }
            int visit(const T2& x) override { log->push_back({2, &x}); return 102; }
        };
        // a visitor assembled from two mix-ins that each derive from base_visitor: it has two base_visitor sub-objects and
        // can be handed to accept() through either; the handler is found by a cross-cast from whichever was passed
        struct MixA : xtl::base_visitor, xtl::visitor<T1, int, false> { Log* log; int visit(T1& x) override { log->push_back({1, &x}); return 101; } };
        struct MixB : xtl::base_visitor, xtl::visitor<T2, int, false> { Log* log; int visit(T2& x) override { log->push_back({2, &x}); return 102; } };
        struct Both : MixA, MixB {};
        static constexpr bool throwing = HT::throwing;
        Run& run; const Plan& plan; Log log; std::string tail;
        R root; T1 o1; T2 o2; T3 o3;
        AcyclicWorld(Run& r, const Plan& p) : run(r), plan(p) { tail = "accept"; }
        [[noreturn]] void viol(const char* oracle, const std::string& msg) { fail("model", std::string("C17/") + oracle + "/" + plan.cfg + "/" + tail, msg); }
        void step(const Step& st)
        {
            StepScope sc(run, st, plan.cfg.c_str());
            int t = static_cast<int>(st.a % 4);      // 0 root, 1..3 leaves
            int v = static_cast<int>(st.b % 8);      // visitor kind
            run.abstract(mix(strhash(plan.cfg.c_str()), static_cast<uint64_t>(t), static_cast<uint64_t>(v)));
            R* target = t == 0 ? &root : (t == 1 ? static_cast<R*>(&o1) : (t == 2 ? static_cast<R*>(&o2) : static_cast<R*>(&o3)));
            VisAll va; va.log = &log; Vis12 v12; v12.log = &log; Vis3 v3; v3.log = &log; VisNone vn; VisThrows vt; vt.log = &log; VisConstFlavour vcf; vcf.log = &log;
            Both both; both.MixA::log = &log; both.MixB::log = &log;
            xtl::base_visitor* vis = v == 6 ? static_cast<xtl::base_visitor*>(static_cast<MixA*>(&both)) : v == 7 ? static_cast<xtl::base_visitor*>(static_cast<MixB*>(&both)) : v == 5 ? static_cast<xtl::base_visitor*>(&vcf) : v == 0 ? static_cast<xtl::base_visitor*>(&va) : (v == 1 ? static_cast<xtl::base_visitor*>(&v12) : (v == 2 ? static_cast<xtl::base_visitor*>(&v3) : (v == 3 ? static_cast<xtl::base_visitor*>(&vn) : static_cast<xtl::base_visitor*>(&vt))));
            bool implemented = t != 0 && ((v == 0) || ((v == 1 || v == 4 || v == 6 || v == 7) && (t == 1 || t == 2)) || (v == 2 && t == 3));
            if (v >= 6) SIM_PROBE("visitor_with_two_base_visitor_subobjects");
            log.clear(); catch_log().clear();
            bool error = false; int ret = -1;
            if (v == 4 && implemented)
            {
                // the handler's own exception reaches the caller as it is; it is not an "unknown visitor"
                int caught = 0;
                try { ret = target->accept(*vis); }
                catch (const std::bad_cast&) { caught = 1; }
                catch (const std::logic_error&) { caught = 2; }
                catch (const std::runtime_error&) { caught = 3; }
                if (caught != t) viol("handler-exception", std::string("the exception thrown by the registered visit() did not reach the caller (") + (caught == 0 ? "accept returned normally" : caught == 3 ? "the catch-all policy reported an unknown visitor" : "another exception arrived") + ")");
                if (log.size() != 1 || log[0].first != t || !catch_log().empty()) viol("handler-exception", "a throwing visit(): the visit did not run exactly once, or the catch-all policy ran as well");
                SIM_PROBE("handler_threw");
                run.dig(static_cast<uint64_t>(caught));
                return;
            }
            try { ret = target->accept(*vis); } catch (const std::runtime_error&) { error = true; }
            if (implemented)
            {
                if (error) viol("spurious-error", "the visitor implements visit for this type but accept reported an error");
                if (log.size() != 1 || log[0].first != t) viol("wrong-handler", "accept ran " + (log.empty() ? std::string("no visit") : "visit for type " + std::to_string(log[0].first)) + ", expected visit for type " + std::to_string(t));
                if (log[0].second != dynamic_cast<const void*>(target)) viol("arguments", "visit received another object");
                if (ret != 100 + t) viol("return", "the visit's return value was not passed back");
                SIM_PROBE("visit_dispatched");
                ++run.changing;
            }
            else
            {
                if (!log.empty()) viol("wrong-handler", "the visitor does not implement visit for type " + std::to_string(t) + " but visit for type " + std::to_string(log[0].first) + " ran");
                if (throwing && !error) viol("no-error", "throwing catch-all policy: unknown visitor was not reported");
                if (!throwing && (error || ret != unknown_return<HT>::value)) viol("no-error", "the catch-all policy's return value (" + std::to_string(unknown_return<HT>::value) + ") was not passed back: accept returned " + std::to_string(ret));
                if (unknown_return<HT>::reports && (catch_log().size() != 1 || catch_log()[0].visitor != static_cast<const void*>(vis))) viol("no-error", "the catch-all policy was not called exactly once with the caller's visitor");
                SIM_PROBE("catch_all_taken");
                if (t == 3 && v == 1) SIM_PROBE("derived_visited_by_visitor_of_base_only");
                if (v == 5 && (t == 1 || t == 2)) SIM_PROBE("visitor_of_the_other_constness");
            }
            run.dig(static_cast<uint64_t>(ret + 1000));
        }
        void run_all() { for (const Step& st : plan.steps) as_caller(run, st, [&] { step(st); }); }
    };

    template <class HT>
    struct ConstAcyclicWorld
    {
        using R = typename HT::CR; using T1 = typename HT::CT1; using T2 = typename HT::CT2; using T3 = typename HT::CT3;
        using Log = std::vector<std::pair<int, const void*>>;
        struct VisAll : xtl::base_visitor, xtl::visitor<mpl::vector<T1, T2, T3>, int, true>
        {
            Log* log;
            int visit(const T1& x) override { log->push_back({1, &x}); return 101; }
            int visit(const T2& x) override { log->push_back({2, &x}); return 102; }
            int visit(const T3& x) override { log->push_back({3, &x}); return 103; }
        };
        struct Vis2 : xtl::base_visitor, xtl::visitor<T2, int, true>
        {
            Log* log;
            int visit(const T2& x) override { log->push_back({2, &x}); return 102; }
        };
        struct VisMutableFlavour : xtl::base_visitor, xtl::visitor<mpl::vector<T1, T2>, int, false>
        {
            Log* log;
            int visit(T1& x) override { log->push_back({1, &x}); return 101; }
            int visit(T2& x) override { log->push_back({2, &x}); return 102; }
        };
        static constexpr bool throwing = HT::throwing;
        Run& run; const Plan& plan; Log log; std::string tail;
        R root; T1 o1; T2 o2; T3 o3;
        ConstAcyclicWorld(Run& r, const Plan& p) : run(r), plan(p) { tail = "accept"; }
        [[noreturn]] void viol(const char* oracle, const std::string& msg) { fail("model", std::string("C17/") + oracle + "/" + plan.cfg + "/" + tail, msg); }
        void step(const Step& st)
        {
            StepScope sc(run, st, plan.cfg.c_str());
            int t = static_cast<int>(st.a % 4), v = static_cast<int>(st.b % 3);
            run.abstract(mix(strhash(plan.cfg.c_str()), static_cast<uint64_t>(t), static_cast<uint64_t>(v)));
            const R* target = t == 0 ? &root : (t == 1 ? static_cast<const R*>(&o1) : (t == 2 ? static_cast<const R*>(&o2) : static_cast<const R*>(&o3)));
            VisAll va; va.log = &log; Vis2 v2; v2.log = &log; VisMutableFlavour vmf; vmf.log = &log;
            xtl::base_visitor* vis = v == 0 ? static_cast<xtl::base_visitor*>(&va) : v == 1 ? static_cast<xtl::base_visitor*>(&v2) : static_cast<xtl::base_visitor*>(&vmf);
            bool implemented = t != 0 && (v == 0 || (v == 1 && t == 2));
            log.clear(); catch_log().clear();
            bool error = false; int ret = -1;
            try { ret = target->accept(*vis); } catch (const std::runtime_error&) { error = true; }
            if (implemented)
            {
                if (error || log.size() != 1 || log[0].first != t || ret != 100 + t) viol("wrong-handler", "const accept did not run exactly the visit for type " + std::to_string(t));
                if (log[0].second != dynamic_cast<const void*>(target)) viol("arguments", "visit received another object");
                SIM_PROBE("const_visit_dispatched");
                ++run.changing;
            }
            else
            {
                if (!log.empty()) viol("wrong-handler", "a visit ran although the visitor does not implement this type");
                if (throwing && !error) viol("no-error", "throwing catch-all policy: unknown visitor was not reported");
                if (!throwing && (error || ret != unknown_return<HT>::value)) viol("no-error", "the catch-all policy's return value (" + std::to_string(unknown_return<HT>::value) + ") was not passed back: accept returned " + std::to_string(ret));
                if (unknown_return<HT>::reports && (catch_log().size() != 1 || catch_log()[0].visitor != static_cast<const void*>(vis))) viol("no-error", "the catch-all policy was not called exactly once with the caller's visitor");
                SIM_PROBE("catch_all_taken");
            }
            run.dig(static_cast<uint64_t>(ret + 1000));
        }
        void run_all() { for (const Step& st : plan.steps) as_caller(run, st, [&] { step(st); }); }
    };

    template <bool CONST>
    struct CyclicWorld
    {
        using Log = std::vector<std::pair<int, const void*>>;
        Run& run; const Plan& plan; Log log; std::string tail;
        Y1 y1; Y2 y2; Y3 y3; Z1 z1; Z2 z2; Z3 z3;
        CyclicWorld(Run& r, const Plan& p) : run(r), plan(p) { tail = "accept"; }
        [[noreturn]] void viol(const char* oracle, const std::string& msg) { fail("model", std::string("C17/") + oracle + "/" + plan.cfg + "/" + tail, msg); }
        void step(const Step& st)
        {
            StepScope sc(run, st, plan.cfg.c_str());
            int t = 1 + static_cast<int>(st.a % 3);
            run.abstract(mix(strhash(plan.cfg.c_str()), static_cast<uint64_t>(t), 0));
            log.clear();
            int ret; const void* who;
            if (!CONST)
            {
                CyclicVisitor vis; vis.log = &log;
                YRoot* target = t == 1 ? static_cast<YRoot*>(&y1) : (t == 2 ? static_cast<YRoot*>(&y2) : static_cast<YRoot*>(&y3));
                ret = target->accept(vis); who = dynamic_cast<const void*>(target);
            }
            else
            {
                ConstCyclicVisitor vis; vis.log = &log;
                const ZRoot* target = t == 1 ? static_cast<const ZRoot*>(&z1) : (t == 2 ? static_cast<const ZRoot*>(&z2) : static_cast<const ZRoot*>(&z3));
                ret = target->accept(vis); who = dynamic_cast<const void*>(target);
            }
            if (log.size() != 1 || log[0].first != t || ret != 100 + t) viol("wrong-handler", "cyclic accept did not run exactly the visit for type " + std::to_string(t));
            if (log[0].second != who) viol("arguments", "visit received another object");
            SIM_PROBE("cyclic_visit_dispatched");
            ++run.changing;
            run.dig(static_cast<uint64_t>(ret));
        }
        void run_all() { for (const Step& st : plan.steps) as_caller(run, st, [&] { step(st); }); }
    };

    void gen(Plan& plan, Rng& cfg, Rng& pr, int)
    {
        size_t n = 2;
        while (n < 40 && cfg.below(14) != 0) ++n;
        plan.params.push_back(n);
        unsigned w[OP_COUNT] = {8, 3, 8, 8, 2, 2};
        unsigned fault_pct = static_cast<unsigned>(cfg.below(3)) * 15;     // 0, 15, 30 % of the registrations meet an allocation failure
        if (plan.cfg.compare(0, 4, "map_") != 0 && plan.cfg.compare(0, 5, "fast_") != 0) fault_pct = 0;   // only functor dispatchers register at run time
        plan.params.push_back(fault_pct);
        unsigned total = 0;
        for (unsigned i = 0; i < OP_COUNT; ++i) total += w[i];
        for (size_t i = 0; i < n; ++i)
        {
            Step s;
            uint64_t pick = pr.below(total);
            for (unsigned o = 0; o < OP_COUNT; ++o) { if (pick < w[o]) { s.op = static_cast<int>(o); break; } pick -= w[o]; }
            s.a = pr.next() >> 40; s.b = pr.next() >> 40; s.c = pr.next() >> 40; s.d = pr.next() >> 44;
            if ((s.op == OP_insert || s.op == OP_reinsert) && pr.below(100) < fault_pct) { s.fkind = FK_ALLOC; s.fk = pr.below(4); }
            plan.steps.push_back(s);
        }
    }
    template <class W> void exec(const Plan& plan, Run& run)
    {
        Suspend everything_but_registrations;
        std::unique_ptr<W> w(new W(run, plan));
        w->run_all();
    }

#define DS_CFG(name, weight, ...) RegisterCfg reg_##name(#name, gen, exec<__VA_ARGS__>, weight, false)
    DS_CFG(map_1arg_dynamic_cast, 2, FunctorWorld<1, xtl::dynamic_caster, xtl::basic_dispatcher, true>);
    DS_CFG(map_2arg_dynamic_cast, 4, FunctorWorld<2, xtl::dynamic_caster, xtl::basic_dispatcher, true>);
    DS_CFG(map_2arg_static_cast, 3, FunctorWorld<2, xtl::static_caster, xtl::basic_dispatcher, true>);
    DS_CFG(map_3arg_dynamic_cast, 3, FunctorWorld<3, xtl::dynamic_caster, xtl::basic_dispatcher, true>);
    DS_CFG(fast_1arg_dynamic_cast, 2, FunctorWorld<1, xtl::dynamic_caster, xtl::basic_fast_dispatcher, false>);
    DS_CFG(fast_2arg_dynamic_cast, 4, FunctorWorld<2, xtl::dynamic_caster, xtl::basic_fast_dispatcher, false>);
    DS_CFG(fast_2arg_static_cast, 3, FunctorWorld<2, xtl::static_caster, xtl::basic_fast_dispatcher, false>);
    DS_CFG(fast_3arg_static_cast, 3, FunctorWorld<3, xtl::static_caster, xtl::basic_fast_dispatcher, false>);
    DS_CFG(map_2arg_reference_return, 1, FunctorWorld<2, xtl::dynamic_caster, xtl::basic_dispatcher, true, const Extra&>);
    DS_CFG(fast_2arg_reference_return, 1, FunctorWorld<2, xtl::static_caster, xtl::basic_fast_dispatcher, false, const Extra&>);
    DS_CFG(static_antisymmetric, 2, StaticWorld<xtl::antisymmetric_dispatch>);
    DS_CFG(static_symmetric, 2, StaticWorld<xtl::symmetric_dispatch>);
    DS_CFG(static_antisymmetric_other_rhs_list, 1, StaticWorld<xtl::antisymmetric_dispatch, 1>);
    DS_CFG(static_two_hierarchies, 1, StaticMixedWorld);
    DS_CFG(acyclic_visitor_default_catch_all, 1, AcyclicWorld<vdefault::Types>);
    DS_CFG(acyclic_visitor_throwing_catch_all, 1, AcyclicWorld<vthrowing::Types>);
    DS_CFG(const_acyclic_visitor_default_catch_all, 1, ConstAcyclicWorld<vdefault::Types>);
    DS_CFG(const_acyclic_visitor_throwing_catch_all, 1, ConstAcyclicWorld<vthrowing::Types>);
    DS_CFG(acyclic_visitor_reporting_catch_all, 1, AcyclicWorld<vreporting::Types>);
    DS_CFG(const_acyclic_visitor_reporting_catch_all, 1, ConstAcyclicWorld<vreporting::Types>);
    DS_CFG(cyclic_visitor, 1, CyclicWorld<false>);
    DS_CFG(const_cyclic_visitor, 1, CyclicWorld<true>);
}
