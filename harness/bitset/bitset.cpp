// harness `bitset` — C03: xdynamic_bitset and xdynamic_bitset_view against std::vector<bool>.
// One translation unit per (block type, allocator) configuration:
//   -DBS_NAME=... -DBS_BLOCK=uint8_t -DBS_FAILALLOC=0|1     (plus BS_MAIN for the unit holding main)
#ifdef BS_MAIN
#  define SIMKIT_MAIN
#endif
#include "../../sim/simkit.hpp"

#include <cstdint>
#include <vector>
#include <list>

#include "xtl/xdynamic_bitset.hpp"

#define BITSET_OPS(X) \
    X(construct) X(assign) X(resize) X(clear) X(push_back) X(pop_back) X(reserve) X(set_all) X(set_bit) X(reset_all) X(reset_bit) \
    X(flip_all) X(flip_bit) X(shl_assign) X(shr_assign) X(shl) X(shr) X(and_assign) X(or_assign) X(xor_assign) X(not_op) X(binop) \
    X(ref_op) X(iter_write) X(copy_assign) X(move_assign) X(swap) X(compare) X(at) X(owner_write) X(view_reseat) X(view_resize) X(view_copy) X(big_shift)

namespace bsops
{
#define X(n) OP_##n,
    enum Op { BITSET_OPS(X) OP_COUNT };
#undef X
}

#ifdef BS_MAIN
namespace sim
{
    const char* const harness_name = "bitset";
    const bool caller_threads_enabled = true;
#define X(n) #n,
    const char* const op_names[] = {BITSET_OPS(X)};
#undef X
    const int op_count = bsops::OP_COUNT;
    const char* const fault_names[] = {"none", "throw", "alloc", "stream", "syscall", nullptr};
    bool workload_admits(const std::string&, const std::string&) { return true; }
    int enumerate_kind() { return 0; }
}
#endif

namespace
{
    using namespace sim;
    using namespace bsops;

    using B = BS_BLOCK;
#if BS_FAILALLOC
    using A = FailingAllocator<B>;
#else
    using A = std::allocator<B>;
#endif
    using BSet = xtl::xdynamic_bitset<B, A>;
    using View = xtl::xdynamic_bitset_view<B>;
    using Tmp = xtl::xdynamic_bitset<B, std::allocator<B>>;
    using Model = std::vector<bool>;
    constexpr size_t W = sizeof(B) * 8;
    constexpr size_t MAXBITS = 200;
    constexpr size_t MAXBLK = MAXBITS / W + 2;
    constexpr size_t GUARD = 4;

    size_t nblocks(size_t bits) { return (bits + W - 1) / W; }

    // A forward iterator over caller blocks whose dereference is a fault point: the caller's iterator may throw in the
    // middle of a block-range constructor or assign.
    struct ThrowingBlockIt
    {
        using iterator_category = std::forward_iterator_tag;
        using value_type = B;
        using difference_type = std::ptrdiff_t;
        using pointer = const B*;
        using reference = const B&;
        std::list<B>::const_iterator it;
        reference operator*() const { fault_point(FK_THROW); return *it; }
        ThrowingBlockIt& operator++() { ++it; return *this; }
        ThrowingBlockIt operator++(int) { ThrowingBlockIt t(*this); ++it; return t; }
        friend bool operator==(const ThrowingBlockIt& a, const ThrowingBlockIt& b) { return a.it == b.it; }
        friend bool operator!=(const ThrowingBlockIt& a, const ThrowingBlockIt& b) { return a.it != b.it; }
    };
    // a braced list of 70 bools taken from an array (initializer lists cannot be built at run time)
#define BS_L10(b, i) b[i], b[i + 1], b[i + 2], b[i + 3], b[i + 4], b[i + 5], b[i + 6], b[i + 7], b[i + 8], b[i + 9]
#define BS_L70(b) BS_L10(b, 0), BS_L10(b, 10), BS_L10(b, 20), BS_L10(b, 30), BS_L10(b, 40), BS_L10(b, 50), BS_L10(b, 60)

    std::vector<B> pack(const Model& m)
    {
        std::vector<B> v(nblocks(m.size()), B(0));
        for (size_t i = 0; i < m.size(); ++i) if (m[i]) v[i / W] = static_cast<B>(v[i / W] | (B(1) << (i % W)));
        return v;
    }
    std::string show(const Model& m)
    {
        std::string s;
        for (size_t i = 0; i < m.size() && i < 80; ++i) s.push_back(m[i] ? '1' : '0');
        if (m.size() > 80) s += "...";
        return s + "(" + std::to_string(m.size()) + ")";
    }

    struct Region
    {
        B mem[GUARD + MAXBLK + GUARD];
        B guard[GUARD + MAXBLK + GUARD];   // expected values of everything outside the covered blocks
        size_t blocks = 0;
        Model m;
    };

    struct World
    {
        Run& run;
        const Plan& plan;
        Rng env;
        Slot<BSet> own[3];
        Model om[3];
        Region reg[2];
        Slot<View> vh[2];
        int vreg[2];             // which region each view handle designates
        std::string tail;
        bool alloc_faults;

        World(Run& r, const Plan& p) : run(r), plan(p), env(stream(p.seed, TAG_ENV))
        {
            alloc_faults = BS_FAILALLOC != 0;
            tail = "initial/-";
            for (int i = 0; i < 3; ++i)
            {
                own[i].prepare(env, env.next());
                Suspend nofaults;
                size_t n = env.below(4) == 0 ? 0 : size_pick(env.next());
                om[i] = rand_bits(env.next(), n);
                new (own[i].ptr()) BSet(n);
                for (size_t k = 0; k < n; ++k) if (om[i][k]) own[i].get().set(k, true);
            }
            for (int r2 = 0; r2 < 2; ++r2) dirty_region(r2);
            vreg[0] = vreg[1] = -1;      // (seat() looks at the other handle's region)
            for (int h = 0; h < 2; ++h) { vreg[h] = h; seat(h, h, static_cast<size_t>(env.below(3 * W + 2))); }
        }
        ~World()
        {
            for (int i = 0; i < 3; ++i) { own[i].get().~BSet(); own[i].unguard(); }
            for (int h = 0; h < 2; ++h) vh[h].unguard();
        }

        [[noreturn]] void viol(const char* cls, const char* oracle, const std::string& msg)
        {
            fail(cls, std::string("C03/") + oracle + "/" + tail, msg);
        }

        void dirty_region(int r)
        {
            Region& g = reg[r];
            for (size_t i = 0; i < GUARD + MAXBLK + GUARD; ++i) { g.mem[i] = static_cast<B>(env.next()); g.guard[i] = g.mem[i]; }
        }
        // (re)construct view handle h over region r with `bits` bits on top of whatever the caller memory holds
        void seat(int h, int r, size_t bits)
        {
            Region& g = reg[r];
            if (bits > MAXBLK * W) bits = MAXBLK * W;
            g.blocks = nblocks(bits);
            // everything outside the covered blocks must stay as it is now
            for (size_t i = 0; i < GUARD + MAXBLK + GUARD; ++i) g.guard[i] = g.mem[i];
            g.m.assign(bits, false);
            for (size_t i = 0; i < bits; ++i) g.m[i] = (g.mem[GUARD + i / W] >> (i % W)) & 1;
            vh[h].prepare(env, env.next());
            new (vh[h].ptr()) View(g.mem + GUARD, bits);     // must canonicalise the last block and touch nothing else
            vreg[h] = r;
            for (int o = 0; o < 2; ++o) if (o != h && vreg[o] == r) { vh[o].prepare(env, env.next()); new (vh[o].ptr()) View(vh[h].get()); }
        }

        // ---- targets ----------------------------------------------------------------------------
        // t in 0..2: owning bitset; 3..4: view handle
        static bool is_view(int t) { return t >= 3; }
        Model& model_of(int t) { return is_view(t) ? reg[vreg[t - 3]].m : om[t]; }
        template <class F> void with(int t, F f)
        {
            if (is_view(t)) f(vh[t - 3].get()); else f(own[t].get());
        }
        static const char* kind(int t) { return is_view(t) ? "view" : "owner"; }
        static const char* sizeclass(size_t n)
        {
            if (n == 0) return "size==0";
            if (n % W == 0) return n / W == 1 ? "size==w" : "size==k*w";
            return n < W ? "size<w" : "size==k*w+r";
        }

        struct Scope
        {
            std::string qual;
            StepScope sc;
            Scope(World& w, const Step& st, const char* family, const char* variant, int t)
                : qual(std::string(variant) + "," + kind(t) + "," + sizeclass(w.model_of(t).size())), sc(w.run, st, qual.c_str())
            {
                w.tail = std::string(family) + "/" + qual;
                w.run.abstract(mix(strhash(family), strhash(qual.c_str()), std::min<size_t>(nblocks(w.model_of(t).size()), 3)));
                w.run.dig(strhash(family) ^ strhash(variant));
            }
        };

        // ---- invariants -------------------------------------------------------------------------
        template <class X>
        void check_one(X& x, const Model& m, const std::string& who)
        {
            const X& cx = x;
            if (cx.size() != m.size()) viol("invariant", "size", who + "size() == " + std::to_string(cx.size()) + ", model " + show(m));
            if (cx.empty() != m.empty()) viol("invariant", "size", who + "empty() disagrees");
            if (cx.block_count() != nblocks(m.size())) viol("invariant", "block_count", who + "block_count() == " + std::to_string(cx.block_count()) + " for " + std::to_string(m.size()) + " bits");
            size_t ones = 0;
            for (size_t i = 0; i < m.size(); ++i)
            {
                if (static_cast<bool>(cx[i]) != m[i] || static_cast<bool>(x[i]) != m[i]) viol("invariant", "content", who + "bit " + std::to_string(i) + " differs, model " + show(m));
                ones += m[i];
            }
            size_t k = 0;
            for (auto it = cx.begin(); it != cx.end(); ++it, ++k) if (k >= m.size() || static_cast<bool>(*it) != m[k]) viol("invariant", "iter", who + "const iteration differs at " + std::to_string(k));
            if (k != m.size()) viol("invariant", "iter", who + "const iteration length");
            k = 0;
            for (auto it = x.begin(); it != x.end(); ++it, ++k) if (k >= m.size() || static_cast<bool>(*it) != m[k]) viol("invariant", "iter", who + "iteration differs at " + std::to_string(k));
            if (k != m.size()) viol("invariant", "iter", who + "iteration length");
            k = m.size();
            for (auto it = cx.rbegin(); it != cx.rend(); ++it) { if (k == 0 || static_cast<bool>(*it) != m[k - 1]) viol("invariant", "iter", who + "reverse iteration differs"); --k; }
            if (k != 0) viol("invariant", "iter", who + "reverse iteration length");
            k = m.size();
            for (auto it = x.crbegin(); it != x.crend(); ++it) { if (k == 0 || static_cast<bool>(*it) != m[k - 1]) viol("invariant", "iter", who + "crbegin/crend iteration differs"); --k; }
            if (k != 0) viol("invariant", "iter", who + "crbegin/crend length");
            k = m.size();
            for (auto it = x.rbegin(); it != x.rend(); ++it) { if (k == 0 || static_cast<bool>(*it) != m[k - 1]) viol("invariant", "iter", who + "non-const reverse iteration differs"); --k; }
            if (k != 0) viol("invariant", "iter", who + "non-const reverse iteration length");
            k = 0;
            for (auto it = x.cbegin(); it != x.cend(); ++it, ++k) if (k >= m.size() || static_cast<bool>(*it) != m[k]) viol("invariant", "iter", who + "cbegin/cend iteration differs at " + std::to_string(k));
            if (k != m.size()) viol("invariant", "iter", who + "cbegin/cend length");
            if (cx.count() != ones) viol("invariant", "count", who + "count() == " + std::to_string(cx.count()) + ", model has " + std::to_string(ones) + " ones: " + show(m));
            if (cx.any() != (ones > 0)) viol("invariant", "any", who + "any() wrong for " + show(m));
            if (cx.none() != (ones == 0)) viol("invariant", "none", who + "none() wrong for " + show(m));
            if (cx.all() != (ones == m.size())) viol("invariant", "all", who + "all() wrong for " + show(m));
            std::vector<B> want = pack(m);
            const B* d = cx.data();
            for (size_t i = 0; i < want.size(); ++i)
                if (d[i] != want[i]) viol("invariant", (i + 1 == want.size() && m.size() % W) ? "unused-bits" : "blocks", who + "block " + std::to_string(i) + " read through data() differs from the packing of the model " + show(m));
            if (static_cast<size_t>(cx.block_end() - cx.block_begin()) != want.size()) viol("invariant", "block_count", who + "block range length");
            // == with a bitset freshly built from the model, != with one differing in a single bit
            Suspend nofaults;
            Tmp fresh(m.size());
            for (size_t i = 0; i < m.size(); ++i) if (m[i]) fresh.set(i, true);
            if (!(cx == fresh) || (cx != fresh)) viol("invariant", "equality", who + "== with a freshly built equal bitset is false: " + show(m));
            if (!m.empty())
            {
                size_t fi = m.size() / 2;
                fresh.flip(fi);
                if ((cx == fresh) || !(cx != fresh)) viol("invariant", "equality", who + "== with a bitset differing in one bit is true");
            }
        }
        void check_all()
        {
            for (int i = 0; i < 3; ++i)
            {
                if (!own[i].canaries_ok()) viol("containment", "canary", "memory next to an owning bitset object was overwritten");
                check_one(own[i].get(), om[i], "owner " + std::to_string(i) + ": ");
                run.dig(om[i].size());
                for (size_t k = 0; k < om[i].size(); ++k) run.dig(static_cast<uint64_t>(om[i][k]));
            }
            for (int h = 0; h < 2; ++h)
            {
                Region& g = reg[vreg[h]];
                check_one(vh[h].get(), g.m, "view " + std::to_string(h) + ": ");
                if (vh[h].get().data() != g.mem + GUARD) viol("invariant", "view-handle", "view no longer designates the caller's memory");
            }
            for (int r = 0; r < 2; ++r)
            {
                Region& g = reg[r];
                std::vector<B> want = pack(g.m);
                for (size_t i = 0; i < GUARD + MAXBLK + GUARD; ++i)
                {
                    bool covered = i >= GUARD && i < GUARD + g.blocks;
                    if (covered) { if (g.mem[i] != want[i - GUARD]) viol("invariant", "caller-memory", "covered caller block " + std::to_string(i - GUARD) + " differs from the packing of the model"); }
                    else if (g.mem[i] != g.guard[i]) viol("containment", "guard-blocks", "caller memory outside the view's blocks was modified (block offset " + std::to_string(static_cast<long>(i) - static_cast<long>(GUARD)) + ")");
                }
                run.dig(g.m.size());
                for (size_t k = 0; k < g.m.size(); ++k) run.dig(static_cast<uint64_t>(g.m[k]));
            }
        }

        // ---- argument interpretation ---------------------------------------------------------
        static size_t size_pick(uint64_t raw)
        {
            unsigned sel = raw & 15; raw >>= 4;
            const size_t fixed[10] = {0, 1, W - 1, W, W + 1, 2 * W, 2 * W + 3, 3 * W, 3 * W - 1, 2};
            size_t n = sel < 10 ? fixed[sel] : static_cast<size_t>(raw % (MAXBITS + 1));
            return n > MAXBITS ? MAXBITS : n;
        }
        static size_t shift_pick(uint64_t raw, size_t size)
        {
            unsigned sel = raw & 7; raw >>= 3;
            switch (sel)
            {
            case 0: return 0;
            case 1: return 1;
            case 2: return 1 + static_cast<size_t>(raw % (W - 1));
            case 3: return W;
            case 4: return W * (1 + static_cast<size_t>(raw % 3));
            case 5: return W * (1 + static_cast<size_t>(raw % 3)) + 1 + static_cast<size_t>((raw >> 8) % (W - 1));
            case 6: return size + static_cast<size_t>(raw % 3);
            default: return static_cast<size_t>(raw % (size + 2));
            }
        }
        Model rand_bits(uint64_t raw, size_t n)
        {
            Rng r(mix(raw, 0x62697473, n));
            Model m(n);
            unsigned style = static_cast<unsigned>(r.below(4));
            for (size_t i = 0; i < n; ++i) m[i] = style == 0 ? r.chance(1, 2) : (style == 1 ? true : (style == 2 ? r.chance(1, 8) : r.chance(7, 8)));
            return m;
        }

        // Rebuild an owning slot after a delivered allocation failure: the property says nothing about
        // bad_alloc, so the only requirement kept is that the object can still be assigned to and destroyed.
        // A moved-from bitset is in an unspecified state - but a state: size(), block_count() and the bits must describe
        // one bit sequence (vector<bool>'s moved-from object is such a sequence too, usually the empty one).  Whatever it
        // holds becomes its model value and the history goes on with it: resize, push_back, ... must work on it.
        void settle_moved_from(int t)
        {
            Suspend nofaults;
            const BSet& cx = own[t].get();
            size_t n = cx.size();
            if (cx.block_count() != nblocks(n))
                viol("invariant", "moved-from", "owner " + std::to_string(t) + ": a moved-from bitset reports size() == " + std::to_string(n) + " with block_count() == " + std::to_string(cx.block_count()) + ": it no longer describes a bit sequence");
            Model m(n);
            for (size_t i = 0; i < n; ++i) m[i] = static_cast<bool>(cx[i]);
            om[t] = m;
            SIM_PROBE("moved_from_bitset_used_further");
        }
        void recover(int t)
        {
            Suspend nofaults;
            BSet& x = own[t].get();
            const Model& m = om[t];
            x = BSet(m.size(), false);
            for (size_t i = 0; i < m.size(); ++i) if (m[i]) x.set(i, true);
            SIM_PROBE("recovered_after_allocation_failure");
        }
        // runs a mutation of owning slot t that may hit an injected allocation failure
        // `canonical`: the call is one whose failed allocation must leave a canonical object behind - the property's
        // "bits beyond size() in the last block are always zero" and block_count() == ceil(size()/w) are stated without
        // exception, so they are kept after bad_alloc too (which *value* the bitset then has is not asked: old or new)
        template <class F> bool guarded(int t, F f, bool canonical = true)
        {
            bool thrown_by_iterator = false;
            try { f(); return true; }
            catch (const Injected&) { thrown_by_iterator = true; SIM_PROBE("caller_iterator_threw"); }
            catch (const std::bad_alloc&) {}
            {
                if (!fstate().fired) viol("exception", "unexpected-bad_alloc", "bad_alloc without an injected allocation failure");
                (void)thrown_by_iterator;
                if (canonical)
                {
                    const BSet& cx = own[t].get();
                    size_t n = cx.size();
                    if (cx.block_count() != nblocks(n)) viol("invariant", "block_count-after-bad_alloc", "after a failed allocation / a throw of the caller's iterator block_count() == " + std::to_string(cx.block_count()) + " for size() == " + std::to_string(n));
                    if (n % W)
                    {
                        B last = cx.data()[cx.block_count() - 1];
                        if (static_cast<B>(last >> (n % W)) != 0) viol("invariant", "unused-bits-after-bad_alloc", "after a failed allocation / a throw of the caller's iterator bits beyond size() == " + std::to_string(n) + " are set in the last block");
                    }
                    size_t ones = 0;
                    for (size_t i = 0; i < n; ++i) ones += static_cast<bool>(cx[i]);
                    if (cx.count() != ones) viol("invariant", "count-after-bad_alloc", "after a failed allocation / a throw of the caller's iterator count() disagrees with the bits");
                }
                recover(t);
                return false;
            }
        }

        // ---- operations ------------------------------------------------------------------------
        void op_construct(const Step& st)
        {
            int t = st.actor % 3;
            static const char* const vn[] = {"default", "allocator", "count_value", "count", "ilist", "block_range", "copy", "from_view", "move", "ilist_70"};
            unsigned v = static_cast<unsigned>(st.d % 10);
            Scope sc(*this, st, "construct", vn[v], t);
            bool lb[70];
            { Model l = rand_bits(st.b ^ 0x70, 70); for (size_t i = 0; i < 70; ++i) lb[i] = l[i]; }
            size_t n = size_pick(st.a);
            bool val = st.b & 1;
            int src = (t + 1 + static_cast<int>(st.c % 2)) % 3;
            int vsrc = static_cast<int>(st.c % 2);
            Model bits = rand_bits(st.b, n);
            std::vector<B> blocks = pack(bits);
            std::list<B> blist(blocks.begin(), blocks.end());
            Model nm;
            own[t].get().~BSet();
            own[t].prepare(env, env.next());
            BSet* p = own[t].ptr();
            bool ok = true;
            try
            {
                switch (v)
                {
                case 0: new (p) BSet(); break;
                case 1: new (p) BSet(A()); break;
                case 2: new (p) BSet(n, val); nm.assign(n, val); break;
                case 3: new (p) BSet(n); nm.assign(n, false); break;
                case 4:
                    if (n % 3 == 0) { new (p) BSet(std::initializer_list<bool>{}); }
                    else if (n % 3 == 1) { new (p) BSet(std::initializer_list<bool>{val}); nm = Model{val}; }
                    else { bool b1 = st.b & 2, b2 = st.b & 4, b3 = st.b & 8; new (p) BSet(std::initializer_list<bool>{val, b1, b2, b3, true}); nm = Model{val, b1, b2, b3, true}; }
                    break;
                case 5: new (p) BSet(ThrowingBlockIt{blist.begin()}, ThrowingBlockIt{blist.end()}); nm.assign(blocks.size() * W, false); for (size_t i = 0; i < bits.size(); ++i) nm[i] = bits[i]; break;
                case 9: new (p) BSet(std::initializer_list<bool>{BS_L70(lb)}); nm.assign(lb, lb + 70); break;
                case 6: new (p) BSet(static_cast<const BSet&>(own[src].get())); nm = om[src]; break;
                case 7: new (p) BSet(static_cast<const xtl::xdynamic_bitset_base<View>&>(vh[vsrc].get())); nm = reg[vreg[vsrc]].m; break;
                default:
                    new (p) BSet(std::move(own[src].get())); nm = om[src];
                    settle_moved_from(src);
                    break;
                }
            }
            catch (const std::bad_alloc&)
            {
                if (!fstate().fired) viol("exception", "unexpected-bad_alloc", "bad_alloc without an injected allocation failure");
                Suspend s;
                new (p) BSet();
                nm.clear();
                ok = false;
                SIM_PROBE("allocation_failure_in_constructor");
            }
            catch (const Injected&)
            {
                Suspend s;
                new (p) BSet();
                nm.clear();
                ok = false;
                SIM_PROBE("caller_iterator_threw");
            }
            om[t] = nm;
            (void)ok;
            ++run.changing;
            check_all();
        }

        void op_assign(const Step& st)
        {
            int t = st.actor % 3;
            static const char* const vn[] = {"count_value", "block_range", "ilist", "ilist_70"};
            unsigned v = static_cast<unsigned>(st.d % 4);
            Scope sc(*this, st, "assign", vn[v], t);
            bool lb[70];
            { Model l = rand_bits(st.b ^ 0x70, 70); for (size_t i = 0; i < 70; ++i) lb[i] = l[i]; }
            size_t n = size_pick(st.a);
            bool val = st.b & 1;
            Model bits = rand_bits(st.b, n);
            std::vector<B> blocks = pack(bits);
            BSet& x = own[t].get();
            Model nm;
            bool done = guarded(t, [&] {
                switch (v)
                {
                case 0: x.assign(n, val); nm.assign(n, val); break;
                case 1: { std::list<B> bl(blocks.begin(), blocks.end()); x.assign(ThrowingBlockIt{bl.begin()}, ThrowingBlockIt{bl.end()}); }
                        nm.assign(blocks.size() * W, false); for (size_t i = 0; i < bits.size(); ++i) nm[i] = bits[i]; break;
                case 3: x.assign(std::initializer_list<bool>{BS_L70(lb)}); nm.assign(lb, lb + 70); break;
                default:
                    { bool b1 = st.b & 2, b2 = st.b & 4;
                      if (n % 2) { x.assign(std::initializer_list<bool>{val, b1, b2}); nm = Model{val, b1, b2}; } else { x.assign(std::initializer_list<bool>{}); } }
                    break;
                }
            });
            if (done) om[t] = nm;
            ++run.changing;
            check_all();
        }

        void op_resize(const Step& st)
        {
            int t = st.actor % 3;
            static const char* const vn[] = {"n_value", "n", "huge"};
            unsigned v = static_cast<unsigned>(st.d % 2);
            // one in sixteen (custom allocator only: under ASan the global operator new aborts instead of throwing): a size
            // no allocation can satisfy - near SIZE_MAX, where the block count computation itself is at its limit
            if (alloc_faults && ((st.d >> 1) & 15) == 15) v = 2;
            if ((st.d >> 5) % 1500 == 1 && sizeof(B) == 8 && !alloc_faults)
            {
                // rarely: more than INT_MAX set bits (results of count() and friends are size_type, not int)
                Scope sc2(*this, st, "resize", "more_than_INT_MAX_set_bits", t);
                Suspend nofaults;
                const size_t big = (size_t(1) << 31) + 64 + static_cast<size_t>(st.a % 64);
                BSet h(big, true);
                if (h.count() != big) viol("model", "huge", "count() of " + std::to_string(big) + " set bits returned " + std::to_string(h.count()));
                if (!h.all() || h.none() || !h.any()) viol("model", "huge", "all()/any()/none() wrong for " + std::to_string(big) + " set bits");
                h.set(big - 1, false);
                if (h.count() != big - 1 || h.all()) viol("model", "huge", "count()/all() wrong after clearing the last of " + std::to_string(big) + " bits");
                SIM_PROBE("more_than_INT_MAX_set_bits");
                check_all();
                return;
            }
            Scope sc(*this, st, "resize", vn[v], t);
            size_t n = size_pick(st.a);
            bool val = st.b & 1;
            BSet& x = own[t].get();
            Model& m = om[t];
            if (v == 2)
            {
                const size_t top = ~size_t(0);
                const size_t huge[] = {top, top - 1, top - 6, top - (W - 1), top - W, top / 2 + 1, top - 63, top - 64};
                size_t hn = huge[(st.a >> 8) % (sizeof(huge) / sizeof(huge[0]))];
                bool threw = false;
                unsigned how = static_cast<unsigned>((st.a >> 12) % 3);
                try { Suspend s; if (how == 0) x.resize(hn, val); else if (how == 1) x.resize(hn); else x.assign(hn, val); }
                catch (const std::length_error&) { threw = true; }
                catch (const std::bad_alloc&) { threw = true; }
                if (!threw) viol("model", "huge", "resize/assign to " + std::to_string(hn) + " bits returned normally; size() == " + std::to_string(x.size()) + ", block_count() == " + std::to_string(x.block_count()));
                if (x.size() != m.size()) viol("model", "huge", "a refused resize/assign changed size() from " + std::to_string(m.size()) + " to " + std::to_string(x.size()));
                SIM_PROBE("size_near_SIZE_MAX_refused");
                check_all();
                return;
            }
            if (n > m.size() && val && v == 0 && m.size() % W) SIM_PROBE("grow_with_true_across_partial_block");
            if (n > m.size()) SIM_PROBE("grow");
            if (n == 0 && !m.empty()) SIM_PROBE("resize_to_zero");
            bool done = guarded(t, [&] { if (v == 0) x.resize(n, val); else x.resize(n); });
            if (done) m.resize(n, v == 0 ? val : false);
            else SIM_PROBE("allocation_failure_in_resize");
            ++run.changing;
            check_all();
        }

        void op_simple(const Step& st, int which)
        {
            int t = st.actor % 3;
            static const char* const names[] = {"clear", "push_back", "pop_back", "reserve"};
            Scope sc(*this, st, names[which], names[which], t);
            BSet& x = own[t].get();
            Model& m = om[t];
            bool val = st.b & 1;
            switch (which)
            {
            case 0: x.clear(); m.clear(); break;
            case 1:
                if (m.size() >= MAXBITS) { stats().add("skipped.max_bits"); break; }
                if (guarded(t, [&] { x.push_back(val); })) m.push_back(val); else SIM_PROBE("allocation_failure_in_push_back");
                break;
            case 2:
                if (m.empty()) { stats().add("skipped.empty_pop_back"); break; }
                x.pop_back(); m.pop_back();
                break;
            default:
                guarded(t, [&] { x.reserve(size_pick(st.a)); });
                if (x.capacity() < m.size()) viol("model", "capacity", "capacity() smaller than size()");
                break;
            }
            ++run.changing;
            check_all();
        }

        // set/reset/flip of all bits or one bit, on an owner or a view
        void op_bits(const Step& st, int which)
        {
            int t = st.actor % 5;
            static const char* const names[] = {"set_all", "set_bit", "reset_all", "reset_bit", "flip_all", "flip_bit"};
            static const char* const vn[] = {"-", "pos_value", "pos"};
            Model& m = model_of(t);
            bool one = which & 1;
            unsigned v = one ? (which == 1 ? 1 + static_cast<unsigned>(st.d % 2) : 2) : 0;
            Scope sc(*this, st, names[which], vn[v], t);
            if (one && m.empty()) { stats().add("skipped.empty_bit_op"); return; }
            size_t pos = one ? bitpos(st.a, m.size()) : 0;
            bool val = st.b & 1;
            if (m.empty()) SIM_PROBE("whole_bitset_op_on_empty");
            with(t, [&](auto& x) {
                switch (which)
                {
                case 0: x.set(); break;
                case 1: if (v == 1) x.set(pos, val); else x.set(pos); break;
                case 2: x.reset(); break;
                case 3: x.reset(pos); break;
                case 4: x.flip(); break;
                default: x.flip(pos); break;
                }
            });
            switch (which)
            {
            case 0: m.assign(m.size(), true); break;
            case 1: m[pos] = v == 1 ? val : true; break;
            case 2: m.assign(m.size(), false); break;
            case 3: m[pos] = false; break;
            case 4: m.flip(); break;
            default: m[pos] = !m[pos]; break;
            }
            ++run.changing;
            check_all();
        }
        static size_t bitpos(uint64_t raw, size_t size)
        {
            unsigned sel = raw & 7; raw >>= 3;
            if (sel == 0) return 0;
            if (sel == 1) return size - 1;
            if (sel == 2 && size > W) return W - 1;
            if (sel == 3 && size > W) return W;
            if (sel == 4) return (size - 1) - (size - 1) % W;   // first bit of the last block
            return static_cast<size_t>(raw % size);
        }

        static Model shifted(const Model& m, size_t pos, bool left)
        {
            Model r(m.size(), false);
            for (size_t i = 0; i < m.size(); ++i)
            {
                if (left) { if (i >= pos) r[i] = m[i - pos]; }
                else { if (i + pos < m.size() && i + pos >= i) r[i] = m[i + pos]; }
            }
            return r;
        }
        template <class X> Model read(const X& x)
        {
            Model r(x.size());
            for (size_t i = 0; i < r.size(); ++i) r[i] = static_cast<bool>(x[i]);
            return r;
        }
        void check_tmp(const Tmp& r, const Model& want, const char* what)
        {
            if (r.size() != want.size()) viol("model", "ret", std::string(what) + " returned " + std::to_string(r.size()) + " bits, expected " + std::to_string(want.size()));
            Model got = read(r);
            if (got != want) viol("model", "ret", std::string(what) + " returned " + show(got) + ", expected " + show(want));
            std::vector<B> p = pack(want);
            for (size_t i = 0; i < p.size(); ++i) if (r.data()[i] != p[i]) viol("invariant", "unused-bits", std::string(what) + ": returned bitset has non-zero unused bits or wrong blocks");
            if (r.count() != static_cast<size_t>(std::count(want.begin(), want.end(), true))) viol("model", "ret", std::string(what) + ": count() of the result is wrong");
        }

        void op_shift(const Step& st, int which)
        {
            int t = st.actor % 5;
            static const char* const names[] = {"shl_assign", "shr_assign", "shl", "shr"};
            Model& m = model_of(t);
            size_t pos = shift_pick(st.a, m.size());
            const char* cls = pos == 0 ? "by0" : (pos >= m.size() ? "ge_size" : (pos % W == 0 ? "whole_blocks" : (pos < W ? "lt_w" : "blocks_plus_bits")));
            Scope sc(*this, st, names[which], cls, t);
            if (pos % W == 0 && pos > 0 && pos < m.size()) SIM_PROBE("whole_block_shift");
            if (pos >= m.size()) SIM_PROBE("shift_ge_size");
            bool left = which == 0 || which == 2;
            Model want = shifted(m, pos, left);
            if (which < 2)
            {
                with(t, [&](auto& x) { if (left) x <<= pos; else x >>= pos; });
                m = want;
                ++run.changing;
            }
            else
            {
                Suspend nofaults;
                with(t, [&](auto& x) { Tmp r = left ? (x << pos) : (x >> pos); this->check_tmp(r, want, left ? "operator<<" : "operator>>"); });
            }
            check_all();
        }

        // partner with the same number of bits as target t: another owner/view is resized/reseated to match
        int make_partner(int t, uint64_t raw)
        {
            Suspend nofaults;
            size_t n = model_of(t).size();
            int p = static_cast<int>(raw % 5);
            if (p == t) p = (t + 1) % 5;
            if (is_view(t) && is_view(p) && vreg[t - 3] == vreg[p - 3]) return p;   // same memory: already equal size
            Model bits = rand_bits(raw >> 8, n);
            if (is_view(p))
            {
                int h = p - 3;
                if (is_view(t) && vreg[h] == vreg[t - 3]) vreg[h] = 1 - vreg[t - 3];
                int r = vreg[h];
                if (is_view(t) && r == vreg[t - 3]) r = 1 - r;
                dirty_region(r);
                std::vector<B> blk = pack(bits);
                for (size_t i = 0; i < blk.size(); ++i) reg[r].mem[GUARD + i] = blk[i];
                seat(h, r, n);
            }
            else
            {
                BSet& y = own[p].get();
                y.resize(n);
                for (size_t i = 0; i < n; ++i) y.set(i, bits[i]);
                om[p] = bits;
            }
            return p;
        }
        void op_logic_assign(const Step& st, int which)
        {
            int t = st.actor % 5;
            static const char* const names[] = {"and_assign", "or_assign", "xor_assign"};
            int p = make_partner(t, st.c);
            Scope sc(*this, st, names[which], is_view(p) ? "with_view" : "with_owner", t);
            Model& m = model_of(t);
            Model pm = model_of(p);
            with(t, [&](auto& x) {
                this->with(p, [&](auto& y) {
                    if (which == 0) x &= y; else if (which == 1) x |= y; else x ^= y;
                });
            });
            if (&m != &model_of(p) || true)
                for (size_t i = 0; i < m.size(); ++i) m[i] = which == 0 ? (m[i] && pm[i]) : (which == 1 ? (m[i] || pm[i]) : (m[i] != pm[i]));
            ++run.changing;
            check_all();
        }
        // Shifts over many blocks: a self-contained history on a temporary owner and a view over heap memory whose
        // block count exceeds what a block-typed counter can hold (more than 2^w blocks for 8-bit blocks always, for
        // 16-bit blocks in one of eight cases), so that a shift may skip more than 2^w whole blocks.
        void op_big_shift(const Step& st)
        {
            static const char* const vn[] = {"owner_shl_assign", "owner_shr_assign", "owner_shl", "owner_shr", "view_shl_assign", "view_shr_assign"};
            unsigned v = static_cast<unsigned>(st.d % 6);
            Scope sc(*this, st, "big_shift", vn[v], 0);
            Suspend nofaults;
            size_t wrap = W >= 32 ? size_t(40) : (size_t(1) << W);              // blocks after which a block-typed counter wraps
            if (W == 16 && (st.c & 7) != 0) wrap = 300;                          // mostly moderate sizes for 16-bit blocks (the huge one costs ~10 ms)
            size_t n = wrap * W + static_cast<size_t>(st.a % (3 * W)) + ((st.a >> 8) & 1 ? 0 : W * static_cast<size_t>((st.a >> 9) % 40));
            size_t choices[6] = {wrap * W, wrap * W + 1 + static_cast<size_t>(st.b % W), wrap * W + W * static_cast<size_t>(st.b % 5), n - 1, static_cast<size_t>(st.b % (n + 2)), W * static_cast<size_t>(st.b % (n / W + 1))};
            size_t pos = choices[(st.b >> 20) % 6];
            Model m = rand_bits(st.c, n);
            std::vector<B> blocks = pack(m);
            SIM_PROBE("shift_over_more_than_2^w_blocks_possible");
            if (pos >= (size_t(1) << std::min<size_t>(W, 20)) * W && pos < n) SIM_PROBE("shift_skips_2^w_blocks_or_more");
            Model want(n, false);
            bool left = v == 0 || v == 2 || v == 4;
            for (size_t i = 0; i < n; ++i)
            {
                if (left) { if (i >= pos) want[i] = m[i - pos]; }
                else { if (i + pos < n) want[i] = m[i + pos]; }
            }
            auto compare = [&](const auto& x, const char* what)
            {
                if (x.size() != n) this->viol("model", "big-shift", std::string(what) + ": size changed");
                const B* d = x.data();
                std::vector<B> wb = pack(want);
                for (size_t i = 0; i < wb.size(); ++i)
                    if (d[i] != wb[i]) this->viol("model", "big-shift", std::string(what) + " by " + std::to_string(pos) + " of " + std::to_string(n) + " bits: block " + std::to_string(i) + " differs from the shifted sequence");
                size_t ones = 0; for (size_t i = 0; i < n; ++i) ones += want[i];
                if (x.count() != ones) this->viol("model", "big-shift", std::string(what) + ": count() differs");
            };
            if (v < 4)
            {
                Tmp x(blocks.begin(), blocks.end());
                x.resize(n);
                if (v == 0) { x <<= pos; compare(x, "operator<<="); }
                else if (v == 1) { x >>= pos; compare(x, "operator>>="); }
                else if (v == 2) { Tmp r = x << pos; compare(r, "operator<<"); }
                else { Tmp r = x >> pos; compare(r, "operator>>"); }
            }
            else
            {
                std::vector<B> mem(blocks.size() + 2, B(0x5a));      // one guard block on each side
                std::copy(blocks.begin(), blocks.end(), mem.begin() + 1);
                View x(mem.data() + 1, n);
                if (v == 4) { x <<= pos; compare(x, "view operator<<="); } else { x >>= pos; compare(x, "view operator>>="); }
                if (mem.front() != B(0x5a) || mem.back() != B(0x5a)) viol("containment", "guard-blocks", "a shift of a large view wrote outside its blocks");
            }
            check_all();
        }

        void op_not(const Step& st)
        {
            int t = st.actor % 5;
            Scope sc(*this, st, "not_op", "tilde", t);
            Model want = model_of(t);
            want.flip();
            Suspend nofaults;
            with(t, [&](auto& x) { Tmp r = ~x; this->check_tmp(r, want, "operator~"); });
            check_all();
        }
        void op_binop(const Step& st)
        {
            int t = st.actor % 5;
            static const char* const vn[] = {"and", "or", "xor"};
            unsigned v = static_cast<unsigned>(st.d % 3);
            int p = make_partner(t, st.c);
            Scope sc(*this, st, "binop", vn[v], t);
            const Model& m = model_of(t);
            const Model& pm = model_of(p);
            Model want(m.size());
            for (size_t i = 0; i < m.size(); ++i) want[i] = v == 0 ? (m[i] && pm[i]) : (v == 1 ? (m[i] || pm[i]) : (m[i] != pm[i]));
            Suspend nofaults;
            with(t, [&](auto& x) {
                this->with(p, [&](auto& y) {
                    Tmp r = v == 0 ? (x & y) : (v == 1 ? (x | y) : (x ^ y));
                    this->check_tmp(r, want, vn[v]);
                });
            });
            check_all();
        }

        void op_ref(const Step& st)
        {
            int t = st.actor % 5;
            static const char* const vn[] = {"assign_bool", "assign_ref", "and_assign", "or_assign", "xor_assign", "flip", "tilde", "address_of", "front", "back", "at_ref", "const_ref",
                                             "assign_temporary_ref", "assign_const_ref", "fill_with_named_ref", "swap_refs", "iter_swap", "reverse_range"};
            unsigned v = static_cast<unsigned>(st.d % 18);
            Scope sc(*this, st, "ref_op", vn[v], t);
            Model& m = model_of(t);
            if (m.empty()) { stats().add("skipped.empty_ref_op"); return; }
            size_t i = bitpos(st.a, m.size()), j = bitpos(st.b, m.size());
            bool val = st.c & 1;
            bool got = false, want = false;
            bool wrote = true;
            with(t, [&](auto& x) {
                const auto& cx = x;
                switch (v)
                {
                case 0: x[i] = val; m[i] = val; break;
                case 1: { auto rj = x[j]; x[i] = rj; m[i] = m[j]; } break;
                case 2: x[i] &= val; m[i] = m[i] && val; break;
                case 3: x[i] |= val; m[i] = m[i] || val; break;
                case 4: x[i] ^= val; m[i] = m[i] != val; break;
                case 5: x[i].flip(); m[i] = !m[i]; break;
                case 6: got = ~x[i]; want = !m[i]; wrote = false; break;
                case 7: { auto r = x[i]; auto p = &r; got = static_cast<bool>(*p); want = m[i]; *p = val; m[i] = val; } break;
                case 8: got = static_cast<bool>(cx.front()); want = m.front(); x.front() = val; m[0] = val; break;
                case 9: got = static_cast<bool>(cx.back()); want = m.back(); x.back() = val; m[m.size() - 1] = val; break;
                case 10: x.at(i) = val; m[i] = val; got = static_cast<bool>(cx.at(i)); want = val; break;
                case 11: got = static_cast<bool>(cx[i]) && !~cx[i]; want = m[i]; wrote = false; break;
                case 12: x[i] = x[j]; m[i] = m[j]; break;                                  // from a temporary reference
                case 13: { const auto rj = x[j]; x[i] = rj; m[i] = m[j]; } break;            // from a const named reference
                // exchanging two bits through their references (also a bit with itself, as every permutation with a fixed point does)
                case 15: { using std::swap; auto ri = x[i]; auto rj = x[j]; if (st.c & 2) swap(ri, rj); else swap(x[i], x[j]); bool tb = m[i]; m[i] = m[j]; m[j] = tb; if (i == j) SIM_PROBE("bit_swapped_with_itself"); } break;
                case 16: { std::iter_swap(x.begin() + static_cast<std::ptrdiff_t>(i), x.begin() + static_cast<std::ptrdiff_t>(j)); bool tb = m[i]; m[i] = m[j]; m[j] = tb; if (i == j) SIM_PROBE("bit_swapped_with_itself"); } break;
                case 17: { size_t lo = std::min(i, j), hi = std::max(i, j) + 1;       // odd lengths have a middle element that stays
                           std::reverse(x.begin() + static_cast<std::ptrdiff_t>(lo), x.begin() + static_cast<std::ptrdiff_t>(hi));
                           std::reverse(m.begin() + static_cast<std::ptrdiff_t>(lo), m.begin() + static_cast<std::ptrdiff_t>(hi)); } break;
                default:
                    { auto rj = x[j]; bool vj = m[j]; size_t lo = std::min(i, j), hi = std::max(i, j);
                      std::fill(x.begin() + static_cast<std::ptrdiff_t>(lo), x.begin() + static_cast<std::ptrdiff_t>(hi), rj);
                      // filling may overwrite bit j itself only at the very end of the range (j == hi is outside it)
                      for (size_t k = lo; k < hi; ++k) { m[k] = vj; if (k == j) vj = m[j]; } }
                    break;
                }
            });
            if (got != want) viol("model", "ret", std::string("reference operation ") + vn[v] + " read the wrong value at bit " + std::to_string(i));
            if (wrote) ++run.changing;
            check_all();
        }

        void op_iter_write(const Step& st)
        {
            int t = st.actor % 5;
            static const char* const vn[] = {"deref_assign", "fill_range", "copy_range", "reverse_assign", "arrow"};
            unsigned v = static_cast<unsigned>(st.d % 5);
            Scope sc(*this, st, "iter_write", vn[v], t);
            Model& m = model_of(t);
            if (m.empty()) { stats().add("skipped.empty_iter_write"); return; }
            size_t i = bitpos(st.a, m.size());
            size_t j = i + static_cast<size_t>((st.b >> 3) % (m.size() - i + 1));
            bool val = st.c & 1;
            Model src = rand_bits(st.c, j - i);
            with(t, [&](auto& x) {
                auto d = [](size_t k) { return static_cast<std::ptrdiff_t>(k); };
                switch (v)
                {
                case 0: *(x.begin() + d(i)) = val; m[i] = val; break;
                case 1: std::fill(x.begin() + d(i), x.begin() + d(j), val); std::fill(m.begin() + d(i), m.begin() + d(j), val); break;
                case 2: std::copy(src.begin(), src.end(), x.begin() + d(i)); std::copy(src.begin(), src.end(), m.begin() + d(i)); break;
                case 3: *(x.rbegin() + d(i)) = val; m[m.size() - 1 - i] = val; break;
                default: { auto it = x.begin() + d(i); bool cur = static_cast<bool>(*(it.operator->())); if (cur != m[i]) this->viol("model", "ret", "iterator operator-> designates the wrong bit"); } break;
                }
            });
            if (v == 3) SIM_PROBE("write_through_reverse_iterator");
            ++run.changing;
            check_all();
        }

        void op_copy_move_assign(const Step& st, bool move)
        {
            int t = st.actor % 5;
            int p;
            if (is_view(t)) p = 3 + (1 - (t - 3)); else { p = static_cast<int>(st.c % 3); }
            Scope sc(*this, st, move ? "move_assign" : "copy_assign", p == t ? "self" : (is_view(t) ? "view_handle" : "owner"), t);
            if (is_view(t))
            {
                // copying a view copies the handle: afterwards both designate the same caller memory
                vh[t - 3].get() = move ? std::move(vh[p - 3].get()) : static_cast<const View&>(vh[p - 3].get());
                vreg[t - 3] = vreg[p - 3];
                SIM_PROBE("view_handle_copied");
            }
            else if (p == t)
            {
                if (move) { stats().add("skipped.self_move"); }
                else { BSet& x = own[t].get(); const BSet& cx = x; guarded(t, [&] { x = cx; }, false); SIM_PROBE("self_copy_assignment"); }
            }
            else
            {
                BSet& x = own[t].get();
                BSet& y = own[p].get();
                bool done = guarded(t, [&] { if (move) x = std::move(y); else x = static_cast<const BSet&>(y); }, false);   // defaulted member-wise assignment: no canonical state promised
                if (done) om[t] = om[p]; else SIM_PROBE("allocation_failure_in_copy_assignment");
                if (move && done) settle_moved_from(p);
            }
            ++run.changing;
            check_all();
        }

        void op_swap(const Step& st)
        {
            int t = st.actor % 5;
            int p = is_view(t) ? 3 + (1 - (t - 3)) : static_cast<int>(st.c % 3);
            Scope sc(*this, st, "swap", p == t ? "self" : (is_view(t) ? "view_handles" : "owners"), t);
            if (is_view(t)) { vh[t - 3].get().swap(vh[p - 3].get()); std::swap(vreg[t - 3], vreg[p - 3]); }
            else { own[t].get().swap(own[p].get()); if (p != t) std::swap(om[t], om[p]); }
            ++run.changing;
            check_all();
        }

        void op_compare(const Step& st)
        {
            int t = st.actor % 5;
            int p = static_cast<int>(st.c % 5);
            Scope sc(*this, st, "compare", is_view(p) ? "with_view" : "with_owner", t);
            if (st.b & 1)
            {
                // make them equal first (sizes and bits), through a path independent of ==
                Suspend nofaults;
                if (!is_view(p) && p != t) { BSet& y = own[p].get(); const Model& m = model_of(t); y.resize(m.size()); for (size_t i = 0; i < m.size(); ++i) y.set(i, m[i]); om[p] = m; }
            }
            bool want = model_of(t) == model_of(p);
            bool eq = false, ne = false;
            with(t, [&](auto& x) { this->with(p, [&](auto& y) { eq = (x == y); ne = (x != y); }); });
            if (eq != want || ne == want) viol("model", "ret", std::string("operator==/!= between ") + kind(t) + " and " + kind(p) + " wrong: == gave " + (eq ? "true" : "false") + " for " + show(model_of(t)) + " vs " + show(model_of(p)));
            if (want) SIM_PROBE("compared_equal");
            if (((st.b >> 1) & 3) == 0)
            {
                // a view over the FIRST k whole blocks of t's own storage: same memory, the same bits on the common prefix,
                // equal exactly when it covers all of t
                Suspend nofaults;
                with(t, [&](auto& x) {
                    size_t whole = x.size() / W;
                    size_t k = static_cast<size_t>((st.b >> 3) % (whole + 1));
                    View tv(const_cast<B*>(x.data()), k * W);
                    bool same = k * W == x.size();
                    const auto& cx = x;
                    if ((cx == tv) != same || (tv == cx) != same || (cx != tv) == same || (tv != cx) == same)
                        this->viol("model", "ret", "operator==/!= between a bitset of " + std::to_string(x.size()) + " bits and a view of " + std::to_string(k * W) + " bits over the same memory is wrong");
                    SIM_PROBE("compared_with_view_over_own_storage");
                });
            }
            check_all();
        }

        void op_at(const Step& st)
        {
            int t = st.actor % 5;
            Model& m = model_of(t);
            size_t limit = m.size() + 2 * W;
            size_t i;
            unsigned sel = st.a & 7;
            if (sel == 0) i = m.size();
            else if (sel == 1) i = m.size() + 1;
            else if (sel == 2) i = nblocks(m.size()) * W - (nblocks(m.size()) ? 1 : 0);   // last bit of the last block
            else if (sel == 3) i = nblocks(m.size()) * W;
            // indices that are negative when read as a signed number: SIZE_MAX - k, 2^63 + k, size() - 1 for an empty bitset
            else if (sel == 5) i = ~static_cast<size_t>(0) - static_cast<size_t>((st.a >> 3) % 4);
            else if (sel == 6) i = (static_cast<size_t>(1) << 63) + static_cast<size_t>((st.a >> 3) % 64);
            else i = static_cast<size_t>((st.a >> 3) % (limit + 1));
            const char* cls = i < m.size() ? "in_range" : (i < nblocks(m.size()) * W ? "in_slack_of_last_block" : (i > (~static_cast<size_t>(0) >> 1) ? "beyond_PTRDIFF_MAX" : "beyond_blocks"));
            Scope sc(*this, st, "at", cls, t);
            if (i >= m.size() && i < nblocks(m.size()) * W) SIM_PROBE("at_in_slack_of_last_block");
            bool threw = false, cthrew = false, got = false, cgot = false;
            with(t, [&](auto& x) {
                const auto& cx = x;
                // the non-const and the const overload are separate functions: each is judged on its own
                try { got = static_cast<bool>(x.at(i)); } catch (const std::out_of_range&) { threw = true; }
                try { cgot = static_cast<bool>(cx.at(i)); } catch (const std::out_of_range&) { cthrew = true; }
            });
            bool want_throw = i >= m.size();
            if (threw != want_throw) viol("model", "at-range", std::string("at(") + std::to_string(i) + ") " + (threw ? "threw" : "did not throw") + " for a bitset of " + std::to_string(m.size()) + " bits");
            if (cthrew != want_throw) viol("model", "at-range", std::string("const at(") + std::to_string(i) + ") " + (cthrew ? "threw" : "did not throw") + " for a bitset of " + std::to_string(m.size()) + " bits");
            if (!threw && (got != m[i] || cgot != m[i])) viol("model", "ret", "at(i) returned the wrong bit");
            check_all();
        }

        void op_owner_write(const Step& st)
        {
            int r = static_cast<int>(st.actor % 2);
            Region& g = reg[r];
            Scope sc(*this, st, "owner_write", "direct", 3 + (vreg[0] == r ? 0 : 1));
            if (g.m.empty()) { stats().add("skipped.empty_region"); return; }
            // the owner writes covered bits behind the view's back (keeping unused bits of the last block zero, its side of the contract)
            Rng rr(mix(st.a, st.b, 5));
            size_t n = 1 + rr.below(8);
            for (size_t k = 0; k < n; ++k)
            {
                size_t i = static_cast<size_t>(rr.below(g.m.size()));
                bool val = rr.chance(1, 2);
                B& blk = g.mem[GUARD + i / W];
                blk = val ? static_cast<B>(blk | (B(1) << (i % W))) : static_cast<B>(blk & ~(B(1) << (i % W)));
                g.m[i] = val;
            }
            SIM_PROBE("owner_write_behind_view");
            ++run.changing;
            check_all();
        }
        void op_view_reseat(const Step& st)
        {
            int h = static_cast<int>(st.actor % 2);
            int r = static_cast<int>(st.c % 2);
            Scope sc(*this, st, "view_reseat", "construct_over_dirty_memory", 3 + h);
            dirty_region(r);
            seat(h, r, size_pick(st.a));
            SIM_PROBE("view_constructed_over_dirty_memory");
            ++run.changing;
            check_all();
        }
        void op_view_resize(const Step& st)
        {
            int h = static_cast<int>(st.actor % 2);
            Model& m = reg[vreg[h]].m;
            size_t n = (st.a & 1) ? m.size() : size_pick(st.a >> 1);
            Scope sc(*this, st, "view_resize", n == m.size() ? "same_size" : "other_size", 3 + h);
            bool threw = false;
            try { vh[h].get().resize(n); } catch (const std::runtime_error&) { threw = true; }
            if (threw != (n != m.size())) viol("model", "view-resize", std::string("view.resize(") + std::to_string(n) + ") on " + std::to_string(m.size()) + " bits " + (threw ? "threw" : "did not throw"));
            check_all();
        }
        void op_view_copy(const Step& st)
        {
            int h = static_cast<int>(st.actor % 2);
            Scope sc(*this, st, "view_copy", "copy_construct", 3 + h);
            int o = 1 - h;
            vh[o].prepare(env, env.next());
            new (vh[o].ptr()) View(static_cast<const View&>(vh[h].get()));
            vreg[o] = vreg[h];
            ++run.changing;
            check_all();
        }

        void step(const Step& st)
        {
            switch (st.op)
            {
            case OP_construct: op_construct(st); break;
            case OP_assign: op_assign(st); break;
            case OP_resize: op_resize(st); break;
            case OP_clear: op_simple(st, 0); break;
            case OP_push_back: op_simple(st, 1); break;
            case OP_pop_back: op_simple(st, 2); break;
            case OP_reserve: op_simple(st, 3); break;
            case OP_set_all: op_bits(st, 0); break;
            case OP_set_bit: op_bits(st, 1); break;
            case OP_reset_all: op_bits(st, 2); break;
            case OP_reset_bit: op_bits(st, 3); break;
            case OP_flip_all: op_bits(st, 4); break;
            case OP_flip_bit: op_bits(st, 5); break;
            case OP_shl_assign: op_shift(st, 0); break;
            case OP_shr_assign: op_shift(st, 1); break;
            case OP_shl: op_shift(st, 2); break;
            case OP_shr: op_shift(st, 3); break;
            case OP_and_assign: op_logic_assign(st, 0); break;
            case OP_or_assign: op_logic_assign(st, 1); break;
            case OP_xor_assign: op_logic_assign(st, 2); break;
            case OP_not_op: op_not(st); break;
            case OP_binop: op_binop(st); break;
            case OP_ref_op: op_ref(st); break;
            case OP_iter_write: op_iter_write(st); break;
            case OP_copy_assign: op_copy_move_assign(st, false); break;
            case OP_move_assign: op_copy_move_assign(st, true); break;
            case OP_swap: op_swap(st); break;
            case OP_compare: op_compare(st); break;
            case OP_at: op_at(st); break;
            case OP_owner_write: op_owner_write(st); break;
            case OP_view_reseat: op_view_reseat(st); break;
            case OP_view_resize: op_view_resize(st); break;
            case OP_view_copy: op_view_copy(st); break;
            case OP_big_shift: op_big_shift(st); break;
            default: { StepScope sc(run, st, "noop"); } break;
            }
        }
        void run_all()
        {
            check_all();
            for (const Step& st : plan.steps) as_caller(run, st, [&] { step(st); });
        }
    };

    void gen(Plan& plan, Rng& cfg, Rng& pr, int)
    {
        size_t n = 1;
        while (n < 40 && cfg.below(12) != 0) ++n;
        plan.params.push_back(n);
        unsigned fault_pct = BS_FAILALLOC ? static_cast<unsigned>(cfg.below(3)) * 20 : 0;
        plan.params.push_back(fault_pct);
        unsigned throw_pct = static_cast<unsigned>(cfg.below(3)) * 15;      // the caller's block iterator throws in 0/15/30 % of block-range constructions and assigns
        plan.params.push_back(throw_pct);
        unsigned w[OP_COUNT];
        for (unsigned i = 0; i < OP_COUNT; ++i) w[i] = 4;
        w[OP_resize] = 10; w[OP_push_back] = 6; w[OP_flip_all] = w[OP_set_all] = 6; w[OP_shl_assign] = w[OP_shr_assign] = 7;
        w[OP_big_shift] = 1;
        w[OP_clear] = 2; w[OP_view_reseat] = 3; w[OP_view_copy] = 2; w[OP_view_resize] = 1; w[OP_reserve] = 2; w[OP_at] = 5;
        if (cfg.below(4) != 0)
            for (unsigned i = 0; i < OP_COUNT; ++i) if (cfg.below(4) == 0) w[i] = 0;
        unsigned total = 0;
        for (unsigned i = 0; i < OP_COUNT; ++i) total += w[i];
        if (!total) { w[OP_resize] = 1; total = 1; }
        for (size_t i = 0; i < n; ++i)
        {
            Step s;
            uint64_t pick = pr.below(total);
            for (unsigned o = 0; o < OP_COUNT; ++o) { if (pick < w[o]) { s.op = static_cast<int>(o); break; } pick -= w[o]; }
            s.actor = static_cast<int>(pr.below(5));
            s.a = pr.next() >> 24; s.b = pr.next() >> 24; s.c = pr.next() >> 24; s.d = pr.next() >> 44;
            bool allocs = s.op == OP_construct || s.op == OP_assign || s.op == OP_resize || s.op == OP_push_back || s.op == OP_reserve || s.op == OP_copy_assign;
            if (allocs && pr.below(100) < fault_pct) { s.fkind = FK_ALLOC; s.fk = pr.below(2); }
            else if ((s.op == OP_construct || s.op == OP_assign) && pr.below(100) < throw_pct) { s.fkind = FK_THROW; s.fk = pr.below(4); }
            plan.steps.push_back(s);
        }
    }

    void exec(const Plan& plan, Run& run)
    {
        std::unique_ptr<World> w(new World(run, plan));
        w->run_all();
    }

#define BS_STR2(x) #x
#define BS_STR(x) BS_STR2(x)
    RegisterCfg reg(BS_STR(BS_NAME), gen, exec, 1, false);
}
