// Reference MurmurHash2 (32-bit) and MurmurHash64A, written from Austin
// Appleby's description with byte-wise little-endian loads only.  Shares no
// code with xtl/xhash.hpp.
#ifndef VERIF_MURMUR_REF_HPP
#define VERIF_MURMUR_REF_HPP
#include <cstdint>
#include <cstddef>

namespace ref
{
    inline uint32_t le32(const unsigned char* p)
    {
        return uint32_t(p[0]) | (uint32_t(p[1]) << 8) | (uint32_t(p[2]) << 16) | (uint32_t(p[3]) << 24);
    }
    inline uint64_t le64(const unsigned char* p)
    {
        uint64_t r = 0;
        for (int i = 7; i >= 0; --i) r = (r << 8) | p[i];
        return r;
    }

    inline uint32_t murmur2_32(const unsigned char* p, size_t length, uint32_t seed)
    {
        const uint32_t m = 0x5bd1e995u;
        uint32_t len = static_cast<uint32_t>(length);
        uint32_t h = seed ^ len;
        size_t i = 0;
        for (; i + 4 <= length; i += 4)
        {
            uint32_t k = le32(p + i);
            k *= m; k ^= k >> 24; k *= m;
            h *= m; h ^= k;
        }
        size_t rest = length - i;
        if (rest == 3) h ^= uint32_t(p[i + 2]) << 16;
        if (rest >= 2) h ^= uint32_t(p[i + 1]) << 8;
        if (rest >= 1) { h ^= uint32_t(p[i]); h *= m; }
        h ^= h >> 13; h *= m; h ^= h >> 15;
        return h;
    }

    inline uint64_t murmur64a(const unsigned char* p, size_t length, uint64_t seed)
    {
        const uint64_t m = 0xc6a4a7935bd1e995ULL;
        const int r = 47;
        uint64_t h = seed ^ (uint64_t(length) * m);
        size_t i = 0;
        for (; i + 8 <= length; i += 8)
        {
            uint64_t k = le64(p + i);
            k *= m; k ^= k >> r; k *= m;
            h ^= k; h *= m;
        }
        size_t rest = length - i;
        if (rest)
        {
            for (size_t j = rest; j-- > 0;) h ^= uint64_t(p[i + j]) << (8 * j);
            h *= m;
        }
        h ^= h >> r; h *= m; h ^= h >> r;
        return h;
    }
}
#endif
