#!/bin/sh
# tools/wave.sh <agent name> <PROP>: confirm the three changes of one sub-agent (serialised: one shared scratch worktree),
# then run the registered quick check against each confirmed one; log in /tmp/wt/<name>.log
n=$1; p=$2
cd "$(dirname "$0")/.."
for i in 1 2 3; do
  [ -f /tmp/wt/$n-out/mut$i.diff ] || continue
  flock /tmp/wt/confirm.lock python3 tools/seedeval.py confirm /tmp/wt/$n-out $i $p $n-$i > /tmp/wt/$n-$i.confirm 2>&1
done
for i in 1 2 3; do
  [ -d seeded/$n-$i ] && python3 tools/seedeval.py detect $n-$i 2>&1 | tail -1 >> /tmp/wt/$n.log
done
