#!/usr/bin/env python3
"""Writes the prompt of one fresh sub-agent of the seeded-change experiment (DESIGN.md 10.1).

usage: mkprompts.py <PROP> <agent name> <worktree> [N]     -> prompt on stdout
       mkprompts.py --benign <PROP> <agent name> <worktree> [N]    (behaviour-preserving changes, benign/TEMPLATE.txt)

The agent gets the property text, its own worktree and, as ideas *not* to repeat, the one-line summaries of the changes
earlier agents delivered for this property.  Nothing from /verif goes in.
"""
import glob
import json
import os
import sys

VERIF = os.path.dirname(os.path.dirname(os.path.abspath(__file__)))


def prop_text(pid):
    for line in open(os.path.join(VERIF, "properties.jsonl")):
        d = json.loads(line)
        if d["id"] == pid:
            out = ["Title: " + d["title"], "", "Statement: " + d["statement"], "", "Quantified over: " + d["quantifier"]["text"], "",
                   "Why the existing tests cannot settle it: " + d["why_tests_cant"], "", "Where the code implementing it lives:",
                   "  files: " + ", ".join(d["anchors"]["files"])]
            for m in d["anchors"]["mechanism"]:
                out.append("  - %s (%s)" % (m["name"], m["where"]))
            return "\n".join(out)
    raise SystemExit("unknown property " + pid)


def used(pid):
    res = []
    for mf in sorted(glob.glob(os.path.join(VERIF, "seeded", pid + "*", "meta.json"))):
        m = json.load(open(mf))
        if m.get("summary"):
            res.append(m["summary"])
    return res


def used_benign(pid):
    res = []
    for mf in sorted(glob.glob(os.path.join(VERIF, "benign", "B" + pid[1:] + "*", "meta.json"))):
        m = json.load(open(mf))
        if m.get("summary"):
            res.append(m["summary"])
    return res


def main_benign():
    pid, name, wt = sys.argv[2:5]
    n = sys.argv[5] if len(sys.argv) > 5 else "4"
    t = open(os.path.join(VERIF, "benign", "TEMPLATE.txt")).read()
    extra = ("\n\nThings an over-strict checker may wrongly depend on, as further inspiration (use what fits this code; each must keep the property true): "
             "per-thread scratch space or caches (thread_local, correctly keyed, so that callers on different threads still see the same results); "
             "lazily initialised function-local static lookup tables (thread-safe initialisation); different allocation sizes, counts or growth; "
             "default- instead of value-initialisation of storage that is overwritten before it can be read; stricter alignment of internal buffers; "
             "another exception class where the property allows it; bulk copies (memcpy/memmove/std::copy) for trivially copyable ranges; "
             "internal copies or moves of temporaries at other moments; delegating one overload to another; other order of independent internal steps.")
    u = used_benign(pid)
    if u:
        extra += "\nThese ideas were already delivered by others - find different ones:\n" + "\n".join("   - " + x for x in u)
    t = t.replace("@PROP@", prop_text(pid) + extra).replace("@WT@", wt).replace("@N@", n)
    sys.stdout.write(t)


def main():
    if sys.argv[1] == "--benign":
        return main_benign()
    pid, name, wt = sys.argv[1:4]
    n = sys.argv[4] if len(sys.argv) > 4 else "3"
    t = open(os.path.join(VERIF, "seeded", "TEMPLATE.txt")).read()
    extra = (" IMPORTANT: assume the people you are testing already run long randomized sequences of the public operations with "
             "boundary-biased arguments and compare every result against an obvious reference implementation, under AddressSanitizer, "
             "with fault injection (throwing element types, failing allocations, failing streams and system calls), aliasing arguments "
             "and unusual template configurations. Changes that such a test trips over within seconds are of little value; aim for rare "
             "or structural triggers, interactions between two features, and TWO-SITE changes where each edit alone is harmless.")
    u = used(pid)
    if u:
        extra += (" The following ideas were already used by others - do NOT repeat them or close variants of them; find different "
                  "functions, different mechanisms or different trigger conditions:\n" + "\n".join("   - " + x for x in u))
    t = t.replace("@PROP@", prop_text(pid)).replace("@WT@", wt).replace("@N@", n).replace("@EXTRA@", extra)
    sys.stdout.write(t)


if __name__ == "__main__":
    main()
