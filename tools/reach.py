#!/usr/bin/env python3
"""Reach of a check's workload inside the xtl headers (DESIGN.md 10.5): which lines of the anchored headers the seeded
histories of a property never execute.

usage: tools/reach.py <PROP> [--runs N] [--headers a.hpp,b.hpp] [--show]

Builds the property's harnesses in the `cov` flavour (gcc --coverage, -O0) into a scratch build directory under /tmp,
runs the quick tier there (evidence is NOT written to /verif/evidence: VERIF_EVIDENCE_DIR points into the scratch
directory), merges the gcov line counts of every translation unit and prints, per xtl header,
  - lines that were compiled into some instantiation but never executed (`#####` in gcov terms), grouped into ranges,
  - statement-like lines inside templates that were never instantiated at all by the harness (heuristic: gcov reports
    no code for a line that ends in `;` and is indented inside a function body).
It is an instrument for steering the generators (a probe stuck at zero means the workload must change), not a check:
nothing here decides a property.
"""
import sys, os, json, subprocess, glob, shutil, re, gzip

VERIF = os.path.dirname(os.path.dirname(os.path.abspath(__file__)))
REPO = os.environ.get("XTL_REPO", "/repo")


def ranges(nums):
    out, start, prev = [], None, None
    for n in sorted(nums):
        if start is None:
            start = prev = n
        elif n == prev + 1:
            prev = n
        else:
            out.append((start, prev)); start = prev = n
    if start is not None:
        out.append((start, prev))
    return out


def main():
    a = sys.argv[1:]
    prop = a[0]
    runs, headers, show = None, None, False
    i = 1
    while i < len(a):
        if a[i] == "--runs":
            runs = a[i + 1]; i += 2
        elif a[i] == "--headers":
            headers = set(a[i + 1].split(",")); i += 2
        elif a[i] == "--show":
            show = True; i += 1
        else:
            raise SystemExit(__doc__)
    scratch = "/tmp/reach_%s_%d" % (prop, os.getpid())
    os.makedirs(scratch + "/evidence", exist_ok=True)
    env = dict(os.environ, VERIF_BUILD=scratch + "/build", VERIF_EVIDENCE_DIR=scratch + "/evidence", VERIF_REPLAY_DIR=scratch + "/replays")
    cmd = [os.path.join(VERIF, "check"), prop, "--tier", "quick", "--flavour", "cov"]
    if runs:
        cmd += ["--runs", runs]
    r = subprocess.run(cmd, env=env, stdout=subprocess.PIPE, stderr=subprocess.STDOUT, text=True)
    print("check exit %d: %s" % (r.returncode, r.stdout.strip().splitlines()[-1] if r.stdout.strip() else ""))
    executed, present = {}, {}
    for gcda in glob.glob(scratch + "/build/*/cov/*.gcda"):
        g = subprocess.run(["gcov", "-t", "-j", gcda], cwd=os.path.dirname(gcda), stdout=subprocess.PIPE, stderr=subprocess.DEVNULL)
        try:
            d = json.loads(g.stdout)
        except ValueError:
            continue
        for f in d.get("files", []):
            fn = os.path.realpath(f["file"])
            if "/include/xtl/" not in fn:
                continue
            base = os.path.basename(fn)
            for ln in f["lines"]:
                present.setdefault(base, set()).add(ln["line_number"])
                if ln["count"] > 0:
                    executed.setdefault(base, set()).add(ln["line_number"])
    for base in sorted(present):
        if headers and base not in headers:
            continue
        src = open(os.path.join(REPO, "include", "xtl", base), errors="replace").read().splitlines()
        never = present[base] - executed.get(base, set())
        uninst = set()
        for n, line in enumerate(src, 1):
            if n in present[base]:
                continue
            s = line.rstrip()
            t = s.lstrip()
            if not (s.endswith(";") and line.startswith("        ")) or t.startswith(("using ", "typedef ", "static_assert", "friend ", "//")):
                continue
            if "= default" in t or "= delete" in t:
                continue
            # statement-like, as opposed to a member declaration: control flow, an assignment, or a call that starts the line
            if (t.startswith(("return", "throw", "if ", "if(", "for ", "for(", "while", "++", "--", "*", "::new", "new "))
                    or re.search(r"[^=!<>]=[^=]", t) or re.match(r"[A-Za-z_][\w:\.\->]*\(", t)):
                uninst.add(n)
        print("%-28s lines with code %5d  executed %5d  never executed %4d  in uninstantiated templates (heuristic) %4d" % (
            base, len(present[base]), len(executed.get(base, set())), len(never), len(uninst)))
        if show:
            for what, st in (("never executed", never), ("uninstantiated", uninst)):
                for lo, hi in ranges(st):
                    print("   %s %d-%d: %s" % (what, lo, hi, src[lo - 1].strip()[:110]))
    shutil.rmtree(scratch, ignore_errors=True)


if __name__ == "__main__":
    main()
