#!/usr/bin/env python3
"""Confirm and evaluate seeded (independently written) property-breaking changes.

  tools/seedeval.py confirm <agent-out-dir> <i> <PROP> <name>
      Verifies mutant i of an agent's output in the scratch worktree /tmp/wt/me (current /repo HEAD, with _build):
      patch applies, demo exits 0 without / non-zero with the patch, the whole repository test suite passes with it.
      On success stores /verif/seeded/<name>/{patch.diff,demo.cpp,notes.txt,meta.json}.
  tools/seedeval.py detect <name> [PROP ...] [--tier quick|thorough] [--keep]
      Runs ./check for the property (default: meta.json's) against a scratch worktree of /repo HEAD with the patch applied
      (XTL_REPO / VERIF_BUILD point the driver at the worktree and a private build directory; the driver, harnesses and
      oracles are those of a private copy of /verif's HEAD commit taken at call time, so edits made meanwhile do not interfere) and
      records the outcome in meta.json.
  tools/seedeval.py benign <agent-out-dir> <i> <name> PROP...
      A behaviour-preserving change (ok<i>.diff): the repository suite must pass with it and the named checks must stay
      silent (exit 0) against a worktree with it applied; stored under /verif/benign/<name>/.
  tools/seedeval.py rebenign <name>
      Runs the current checks again against the stored behaviour-preserving change benign/<name>/ (no suite run).
  tools/seedeval.py table        regenerates seeded/README.md from the meta.json files

Nothing is ever applied to /repo's own working tree by this script.
"""
import sys, os, json, subprocess, shutil, time, re, glob

VERIF = os.path.dirname(os.path.dirname(os.path.abspath(__file__)))
SEEDED = os.path.join(VERIF, "seeded")
ME = "/tmp/wt/me"


def sh(cmd, **kw):
    return subprocess.run(cmd, shell=isinstance(cmd, str), stdout=subprocess.PIPE, stderr=subprocess.STDOUT, text=True, errors="replace", **kw)


def ensure_me():
    if not os.path.isdir(ME):
        os.makedirs("/tmp/wt", exist_ok=True)
        r = sh(["git", "-C", "/repo", "worktree", "add", "--detach", ME, "HEAD"])
        assert r.returncode == 0, r.stdout
    sh(["git", "-C", ME, "checkout", "-q", "--detach", sh(["git", "-C", "/repo", "rev-parse", "HEAD"]).stdout.strip()])
    sh(["git", "-C", ME, "checkout", "--", "."])
    if not os.path.isdir(ME + "/_build"):
        r = sh("cmake -G Ninja -S %s -B %s/_build -DBUILD_TESTS=ON -DCMAKE_BUILD_TYPE=RelWithDebInfo -DCMAKE_CXX_FLAGS=-Wno-error -DDOWNLOAD_GTEST=OFF" % (ME, ME))
        assert r.returncode == 0, r.stdout[-2000:]


def demo_flags(notes, demo_src):
    fl = ["-std=c++14", "-I", ME + "/include"]
    m = re.search(r"g\+\+[^\n]*", notes + "\n" + demo_src)
    txt = notes + demo_src
    if os.environ.get("SEEDEVAL_NOSAN"):
        pass
    elif "-fsanitize=address" in txt or "fsanitize=address" in txt or "AddressSanitizer" in txt or "ASan" in notes:
        fl += ["-fsanitize=address", "-fno-omit-frame-pointer"]
    if "-fsanitize=undefined" in txt:
        fl += ["-fsanitize=undefined", "-fno-sanitize-recover=all"]
    if "-pthread" in txt:
        fl += ["-pthread"]
    return fl


def run_demo(demo, flags, tag):
    exe = "/tmp/wt/demo_%s_%d" % (tag, os.getpid())
    r = sh(["g++"] + flags + [demo, "-o", exe])
    if r.returncode != 0:
        return None, "compile failed: " + r.stdout[-1500:]
    try:
        r = sh([exe], timeout=300)
        rc, out = r.returncode, r.stdout[-800:]
    except subprocess.TimeoutExpired:
        rc, out = -9, "timeout"
    os.remove(exe)
    return rc, out


def confirm(outdir, i, prop, name):
    ensure_me()
    patch = os.path.join(outdir, "mut%s.diff" % i)
    demo = os.path.join(outdir, "demo%s.cpp" % i)
    notes_p = os.path.join(outdir, "mut%s.txt" % i)
    notes = open(notes_p).read() if os.path.exists(notes_p) else ""
    res = dict(name=name, property=prop, confirmed=False, steps=[])
    r = sh(["git", "-C", ME, "apply", "--check", patch])
    if r.returncode != 0:
        res["steps"].append("patch does not apply to current /repo HEAD: " + r.stdout[-400:])
        print(json.dumps(res, indent=1)); return 1
    flags = demo_flags(notes, open(demo).read())
    rc0, out0 = run_demo(demo, flags, name)
    res["steps"].append("demo on clean tree: rc=%s" % rc0)
    sh(["git", "-C", ME, "apply", patch])
    try:
        rc1, out1 = run_demo(demo, flags, name)
        res["steps"].append("demo with patch: rc=%s %s" % (rc1, (out1 or "")[-200:].replace("\n", " | ")))
        b = sh("cmake --build %s/_build -j 8 2>&1 | tail -3" % ME)
        t = sh("ctest --test-dir %s/_build -j 8 --timeout 900 2>&1 | tail -4" % ME)
        suite_ok = "100% tests passed" in t.stdout
        res["steps"].append("repository test suite with patch: " + ("24/24 pass" if suite_ok else "FAILS: " + b.stdout[-300:] + t.stdout[-300:]))
    finally:
        sh(["git", "-C", ME, "checkout", "--", "."])
    ok = rc0 == 0 and rc1 not in (0, None) and suite_ok
    res["confirmed"] = ok
    if ok:
        d = os.path.join(SEEDED, name)
        os.makedirs(d, exist_ok=True)
        shutil.copy(patch, os.path.join(d, "patch.diff"))
        shutil.copy(demo, os.path.join(d, "demo.cpp"))
        open(os.path.join(d, "notes.txt"), "w").write(notes)
        meta = dict(name=name, breaks_property=prop, origin="written by an independent sub-agent that saw only the property text and its own worktree",
                    needs_to_manifest="see notes.txt", demo_build="g++ " + " ".join(f.replace(ME, "<repo>") for f in flags) + " demo.cpp",
                    confirmed=dict(repo_head=sh(["git", "-C", "/repo", "rev-parse", "--short", "HEAD"]).stdout.strip(),
                                   demo_rc_clean=rc0, demo_rc_patched=rc1, test_suite_with_patch="24/24 ctest targets pass"),
                    detection=[])
        mp = os.path.join(d, "meta.json")
        if os.path.exists(mp):
            old = json.load(open(mp))
            meta["detection"] = old.get("detection", [])
            meta["needs_to_manifest"] = old.get("needs_to_manifest", meta["needs_to_manifest"])
        json.dump(meta, open(mp, "w"), indent=1)
    print(json.dumps(res, indent=1))
    return 0 if ok else 1


def detect(name, props, tier, keep=False, at="HEAD"):
    d = os.path.join(SEEDED, name)
    meta = json.load(open(os.path.join(d, "meta.json")))
    props = props or [meta["breaks_property"]]
    tag = "%s_%d" % (name, os.getpid())
    wt = "/tmp/wt/det_" + tag
    snap = "/tmp/vsnap_" + tag
    head = sh(["git", "-C", "/repo", "rev-parse", "HEAD"]).stdout.strip()
    r = sh(["git", "-C", "/repo", "worktree", "add", "--detach", wt, head])
    assert r.returncode == 0, r.stdout
    out_all = []
    try:
        r = sh(["git", "-C", wt, "apply", os.path.join(d, "patch.diff")])
        assert r.returncode == 0, r.stdout
        os.makedirs(snap)
        r = sh("git -C %s archive %s | tar -x -C %s" % (VERIF, at, snap))      # committed state only: edits in progress do not interfere
        assert r.returncode == 0, r.stdout
        vhead = sh(["git", "-C", VERIF, "rev-parse", "--short", at]).stdout.strip()
        dirty = False
        for prop in props:
            env = dict(os.environ, XTL_REPO=wt, VERIF_BUILD=snap + "/build")
            t0 = time.time()
            r = subprocess.run([snap + "/check", prop, "--tier", tier], cwd=snap, env=env, stdout=subprocess.PIPE, stderr=subprocess.PIPE, text=True, errors="replace")
            wall = time.time() - t0
            viol = [l for l in r.stdout.splitlines() if l.startswith("VIOLATION") or l.startswith("  signature=")]
            rec = dict(check="./check %s --tier %s" % (prop, tier), verif_commit=vhead + ("+uncommitted" if dirty else ""), exit=r.returncode,
                       detected=(r.returncode == 1 and any(l.startswith("VIOLATION") for l in viol)),
                       output=[l.replace(snap, "/verif") for l in viol][:12], wall_s=round(wall, 1))
            if r.returncode == 2:
                rec["machinery_failure"] = (r.stdout[-600:] + r.stderr[-1500:])
            # keep the replay files of the first violation as an example
            meta["detection"] = [x for x in meta.get("detection", []) if not (x.get("check") == rec["check"] and x.get("verif_commit") == rec["verif_commit"])] + [rec]
            order = sh(["git", "-C", VERIF, "rev-list", "--reverse", "HEAD"]).stdout.split()
            pos = {c[:7]: i for i, c in enumerate(order)}
            meta["detection"].sort(key=lambda x: pos.get(x.get("verif_commit", "")[:7], 10 ** 6))
            out_all.append(rec)
            print(name, prop, "exit", r.returncode, "DETECTED" if rec["detected"] else "missed", "%.0fs" % wall, flush=True)
            for l in rec["output"][:4]:
                print("   ", l)
            if r.returncode == 2:
                print(rec["machinery_failure"])
        json.dump(meta, open(os.path.join(d, "meta.json"), "w"), indent=1)
    finally:
        if not keep:
            sh(["git", "-C", "/repo", "worktree", "remove", "--force", wt])
            shutil.rmtree(snap, ignore_errors=True)
    return 0


BENIGN = os.path.join(VERIF, "benign")


def benign(outdir, i, name, props, tier="quick"):
    """A behaviour-preserving change: the repository suite must pass with it and the checks must stay silent."""
    ensure_me()
    patch = os.path.join(outdir, "ok%s.diff" % i)
    notes_p = os.path.join(outdir, "ok%s.txt" % i)
    notes = open(notes_p).read() if os.path.exists(notes_p) else ""
    r = sh(["git", "-C", ME, "apply", "--check", patch])
    if r.returncode != 0:
        print(name, "patch does not apply:", r.stdout[-300:]); return 1
    sh(["git", "-C", ME, "apply", patch])
    try:
        sh("cmake --build %s/_build -j 8 2>&1 | tail -3" % ME)
        t = sh("ctest --test-dir %s/_build -j 8 --timeout 900 2>&1 | tail -4" % ME)
        suite_ok = "100% tests passed" in t.stdout
    finally:
        sh(["git", "-C", ME, "checkout", "--", "."])
    d = os.path.join(BENIGN, name)
    os.makedirs(d, exist_ok=True)
    shutil.copy(patch, os.path.join(d, "patch.diff"))
    open(os.path.join(d, "notes.txt"), "w").write(notes)
    meta = dict(name=name, kind="behaviour-preserving change written by an independent sub-agent that saw only the property text",
                properties=props, test_suite_with_patch="24/24 ctest targets pass" if suite_ok else "FAILS", runs=[])
    mp = os.path.join(d, "meta.json")
    if os.path.exists(mp):
        meta["runs"] = json.load(open(mp)).get("runs", [])
        meta["verdict"] = json.load(open(mp)).get("verdict", "")
        meta["summary"] = json.load(open(mp)).get("summary", "")
    tag = "%s_%d" % (name, os.getpid())
    wt = "/tmp/wt/ben_" + tag
    snap = "/tmp/vsnap_" + tag
    head = sh(["git", "-C", "/repo", "rev-parse", "HEAD"]).stdout.strip()
    r = sh(["git", "-C", "/repo", "worktree", "add", "--detach", wt, head])
    assert r.returncode == 0, r.stdout
    try:
        r = sh(["git", "-C", wt, "apply", patch]); assert r.returncode == 0, r.stdout
        os.makedirs(snap)
        sh("git -C %s archive HEAD | tar -x -C %s" % (VERIF, snap))
        vhead = sh(["git", "-C", VERIF, "rev-parse", "--short", "HEAD"]).stdout.strip()
        for prop in props:
            env = dict(os.environ, XTL_REPO=wt, VERIF_BUILD=snap + "/build")
            t0 = time.time()
            r = subprocess.run([snap + "/check", prop, "--tier", tier], cwd=snap, env=env, stdout=subprocess.PIPE, stderr=subprocess.PIPE, text=True, errors="replace")
            viol = [l.replace(snap, "/verif") for l in r.stdout.splitlines() if l.startswith("VIOLATION") or l.startswith("  signature=") or l.startswith("MACHINERY")]
            rec = dict(check="./check %s --tier %s" % (prop, tier), verif_commit=vhead, exit=r.returncode, silent=(r.returncode == 0), output=viol[:8], wall_s=round(time.time() - t0, 1))
            if r.returncode == 2:
                rec["machinery_failure"] = r.stdout[-400:] + r.stderr[-1200:]
            meta["runs"] = [x for x in meta["runs"] if not (x["check"] == rec["check"] and x["verif_commit"] == vhead)] + [rec]
            print(name, prop, "exit", r.returncode, "silent" if rec["silent"] else "ALARM", "suite", "ok" if suite_ok else "FAILS", "%.0fs" % rec["wall_s"], flush=True)
            for l in viol[:4]:
                print("   ", l[:300])
    finally:
        sh(["git", "-C", "/repo", "worktree", "remove", "--force", wt])
        shutil.rmtree(snap, ignore_errors=True)
    json.dump(meta, open(mp, "w"), indent=1)
    return 0


def rebenign(name, tier="quick"):
    """Runs the current checks again against a stored behaviour-preserving change (the repository suite was verified when it was stored)."""
    d = os.path.join(BENIGN, name)
    mp = os.path.join(d, "meta.json")
    meta = json.load(open(mp))
    patch = os.path.join(d, "patch.diff")
    tag = "%s_%d" % (name, os.getpid())
    wt = "/tmp/wt/ben_" + tag
    snap = "/tmp/vsnap_" + tag
    head = sh(["git", "-C", "/repo", "rev-parse", "HEAD"]).stdout.strip()
    r = sh(["git", "-C", "/repo", "worktree", "add", "--detach", wt, head])
    assert r.returncode == 0, r.stdout
    try:
        r = sh(["git", "-C", wt, "apply", patch])
        if r.returncode != 0:
            print(name, "no longer applies to /repo HEAD"); return 1
        os.makedirs(snap)
        sh("git -C %s archive HEAD | tar -x -C %s" % (VERIF, snap))
        vhead = sh(["git", "-C", VERIF, "rev-parse", "--short", "HEAD"]).stdout.strip()
        for prop in meta["properties"]:
            env = dict(os.environ, XTL_REPO=wt, VERIF_BUILD=snap + "/build")
            t0 = time.time()
            r = subprocess.run([snap + "/check", prop, "--tier", tier], cwd=snap, env=env, stdout=subprocess.PIPE, stderr=subprocess.PIPE, text=True, errors="replace")
            viol = [l.replace(snap, "/verif") for l in r.stdout.splitlines() if l.startswith("VIOLATION") or l.startswith("  signature=") or l.startswith("MACHINERY")]
            rec = dict(check="./check %s --tier %s" % (prop, tier), verif_commit=vhead, exit=r.returncode, silent=(r.returncode == 0), output=viol[:8], wall_s=round(time.time() - t0, 1))
            if r.returncode == 2:
                rec["machinery_failure"] = r.stdout[-400:] + r.stderr[-1200:]
            meta["runs"] = [x for x in meta["runs"] if not (x["check"] == rec["check"] and x["verif_commit"] == vhead)] + [rec]
            print(name, prop, "exit", r.returncode, "silent" if rec["silent"] else "ALARM", "%.0fs" % rec["wall_s"], flush=True)
            for l in viol[:4]:
                print("   ", l[:300])
    finally:
        sh(["git", "-C", "/repo", "worktree", "remove", "--force", wt])
        shutil.rmtree(snap, ignore_errors=True)
    json.dump(meta, open(mp, "w"), indent=1)
    return 0


def table():
    rows = []
    for mp in sorted(glob.glob(os.path.join(SEEDED, "*", "meta.json"))):
        m = json.load(open(mp))
        det = m.get("detection", [])
        last = {}
        missed_before = {}
        for x in det:      # sorted by /verif commit order
            last[x["check"]] = x
            if not x["detected"]:
                missed_before.setdefault(x["check"], x.get("verif_commit", "?"))
        def word(c, x):
            w = "caught" if x["detected"] else ("machinery failure" if x["exit"] == 2 else "missed")
            if x["detected"] and c in missed_before:
                w += " at %s after strengthening (missed at %s)" % (x.get("verif_commit", "?"), missed_before[c])
            return w
        cell = "; ".join("%s: %s" % (c.replace("./check ", ""), word(c, x)) for c, x in sorted(last.items()))
        sig = ""
        for x in last.values():
            for l in x.get("output", []):
                if l.strip().startswith("signature="):
                    sig = l.strip().split()[0].replace("signature=", ""); break
            if sig: break
        rows.append("| %s | %s | %s | %s | %s |" % (m["name"], m["breaks_property"], m.get("summary", "").replace("|", "/"), cell or "not run", sig))
    with open(os.path.join(SEEDED, "README.md"), "w") as f:
        f.write("# Seeded changes\n\nIndependently written property-breaking changes (each by a sub-agent that saw only the property text and its own scratch worktree), "
                "confirmed here (patch applies, the repository's test suite still passes with it, the demonstration fails with it and passes without it), "
                "and the outcome of the registered checks against a worktree with the change applied. Generated by tools/seedeval.py table from the meta.json files.\n\n"
                "| change | property | what it does | checks | first signature reported |\n|---|---|---|---|---|\n")
        f.write("\n".join(rows) + "\n")
    print("wrote seeded/README.md with %d rows" % len(rows))
    brows = []
    for mp in sorted(glob.glob(os.path.join(BENIGN, "*", "meta.json"))):
        m = json.load(open(mp))
        last = {}
        for x in m.get("runs", []):
            last[x["check"]] = x
        cell = "; ".join("%s: %s" % (c.replace("./check ", ""), "silent" if x["silent"] else ("ALARM" if x["exit"] == 1 else "machinery failure")) for c, x in sorted(last.items()))
        brows.append("| %s | %s | %s | %s | %s |" % (m["name"], m.get("summary", "").replace("|", "/"), m.get("test_suite_with_patch", ""), cell, m.get("verdict", "").replace("|", "/")))
    if brows:
        with open(os.path.join(BENIGN, "README.md"), "w") as f:
            f.write("# Behaviour-preserving changes\n\nChanges written by sub-agents that saw only the property text and were asked for realistic, non-trivial refactorings, "
                    "optimisations and representation changes that keep the property true. The registered checks were run against a worktree with each change applied "
                    "(tools/seedeval.py benign); they are expected to stay silent. Generated by tools/seedeval.py table.\n\n"
                    "| change | what it does | repository suite | checks | verdict where a check spoke |\n|---|---|---|---|---|\n")
            f.write("\n".join(brows) + "\n")
        print("wrote benign/README.md with %d rows" % len(brows))


def main():
    a = sys.argv[1:]
    if not a:
        print(__doc__); return 2
    if a[0] == "confirm":
        return confirm(a[1], a[2], a[3], a[4])
    if a[0] == "detect":
        tier = "quick"; keep = False; rest = []; at = "HEAD"
        i = 1
        while i < len(a):
            if a[i] == "--tier": tier = a[i + 1]; i += 2
            elif a[i] == "--keep": keep = True; i += 1
            elif a[i] == "--at": at = a[i + 1]; i += 2
            else: rest.append(a[i]); i += 1
        return detect(rest[0], rest[1:], tier, keep, at)
    if a[0] == "benign":
        return benign(a[1], a[2], a[3], a[4:])
    if a[0] == "rebenign":
        return rebenign(a[1])
    if a[0] == "table":
        return table()
    print(__doc__); return 2


if __name__ == "__main__":
    sys.exit(main())
