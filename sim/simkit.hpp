// simkit — deterministic simulation kit for the xtl harnesses (C++14, header only).
//
// One integer decides everything: a run seed is expanded into three independent
// PRNG streams (cfg / plan / env).  Plans are plain data (steps with attached
// faults) generated *before* execution, so that they can be written to a replay
// file, delta-debugged by the driver and re-executed in a fresh process.
//
// Nothing in here reads a clock, an address (as data), the environment or a
// hash-map iteration order.  See /verif/DESIGN.md section 3.
#ifndef SIMKIT_HPP
#define SIMKIT_HPP

#include <thread>
#include <mutex>
#include <condition_variable>
#include <exception>
#include <cstdint>
#include <cstddef>
#include <cstdio>
#include <cstdlib>
#include <cstring>
#include <string>
#include <vector>
#include <map>
#include <set>
#include <unordered_set>
#include <exception>
#include <stdexcept>
#include <sstream>
#include <fstream>
#include <algorithm>
#include <new>

#if defined(__SANITIZE_ADDRESS__)
#  include <sanitizer/asan_interface.h>
#  define SIM_ASAN 1
#else
#  define SIM_ASAN 0
#endif

namespace sim
{
    /***********
     * PRNG    *
     ***********/

    inline uint64_t splitmix64(uint64_t& x)
    {
        x += 0x9e3779b97f4a7c15ULL;
        uint64_t z = x;
        z = (z ^ (z >> 30)) * 0xbf58476d1ce4e5b9ULL;
        z = (z ^ (z >> 27)) * 0x94d049bb133111ebULL;
        return z ^ (z >> 31);
    }

    inline uint64_t mix(uint64_t a, uint64_t b, uint64_t c = 0)
    {
        uint64_t x = a ^ 0x6a09e667f3bcc909ULL;
        uint64_t r = splitmix64(x);
        x ^= b * 0x9e3779b97f4a7c15ULL + 0x1234567;
        r ^= splitmix64(x);
        x ^= c * 0xc2b2ae3d27d4eb4fULL + 0x89abcdef;
        r ^= splitmix64(x);
        return r ^ splitmix64(x);
    }

    inline uint64_t strhash(const char* s)
    {
        uint64_t h = 0xcbf29ce484222325ULL;
        for (; *s; ++s) { h ^= static_cast<unsigned char>(*s); h *= 0x100000001b3ULL; }
        return h;
    }

    // xoshiro256**
    struct Rng
    {
        uint64_t s[4];
        Rng() : s{1, 2, 3, 4} {}
        explicit Rng(uint64_t seed) { reseed(seed); }
        void reseed(uint64_t seed)
        {
            uint64_t x = seed;
            for (int i = 0; i < 4; ++i) s[i] = splitmix64(x);
        }
        static uint64_t rotl(uint64_t x, int k) { return (x << k) | (x >> (64 - k)); }
        uint64_t next()
        {
            uint64_t r = rotl(s[1] * 5, 7) * 9;
            uint64_t t = s[1] << 17;
            s[2] ^= s[0]; s[3] ^= s[1]; s[1] ^= s[2]; s[0] ^= s[3];
            s[2] ^= t; s[3] = rotl(s[3], 45);
            return r;
        }
        // uniform in [0, n), n > 0 (modulo bias irrelevant here)
        uint64_t below(uint64_t n) { return n ? next() % n : 0; }
        uint64_t range(uint64_t lo, uint64_t hi) { return lo + below(hi - lo + 1); }
        bool chance(unsigned num, unsigned den) { return below(den) < num; }
        unsigned char byte() { return static_cast<unsigned char>(next() >> 24); }
    };

    enum StreamTag : uint64_t { TAG_CFG = 0x636667, TAG_PLAN = 0x706c616e, TAG_ENV = 0x656e76, TAG_CALLERS = 0x63616c6c };
    inline Rng stream(uint64_t run_seed, uint64_t tag) { return Rng(mix(run_seed, tag, 0x51)); }

    /*********************
     * plans             *
     *********************/

    struct Step
    {
        int actor = 0;
        int op = 0;
        uint64_t a = 0, b = 0, c = 0, d = 0;
        int fkind = 0;      // 0 = no fault attached
        uint64_t fk = 0;    // fault parameter (k-th fault point, byte count, ...)
    };

    struct Plan
    {
        std::string harness;
        std::string cfg;
        std::string workload = "-";
        std::string variant = "-";
        uint64_t seed = 0;
        std::vector<uint64_t> params;   // run-level configuration drawn from the cfg stream
        std::vector<Step> steps;
    };

    /*********************
     * violations        *
     *********************/

    struct Violation
    {
        std::string cls;   // model | invariant | lifetime | exception | containment | sanitizer
        std::string sig;   // <property>/<oracle>/<operation>/<qualifier>
        std::string msg;
    };

    [[noreturn]] inline void fail(const std::string& cls, const std::string& sig, const std::string& msg)
    {
        throw Violation{cls, sig, msg};
    }

    // Violations noticed where throwing is impossible (destructors, noexcept
    // functions).  First one wins; the step epilogue raises it.
    struct Pending
    {
        bool set = false;
        Violation v;
    };
    inline Pending& pending() { static Pending p; return p; }
    inline void defer(const std::string& cls, const std::string& sig, const std::string& msg)
    {
        Pending& p = pending();
        if (!p.set) { p.set = true; p.v = Violation{cls, sig, msg}; }
    }
    inline void raise_pending()
    {
        Pending& p = pending();
        if (p.set) { p.set = false; throw p.v; }
    }
    inline void clear_pending() { pending().set = false; }

    /*********************
     * statistics        *
     *********************/

    struct Stats
    {
        std::vector<std::string> names;
        std::vector<uint64_t> values;
        std::unordered_set<uint64_t> abstract;
        int id(const std::string& n)
        {
            for (size_t i = 0; i < names.size(); ++i) if (names[i] == n) return static_cast<int>(i);
            names.push_back(n); values.push_back(0);
            return static_cast<int>(names.size() - 1);
        }
        void add(int i, uint64_t v = 1) { values[static_cast<size_t>(i)] += v; }
        void add(const std::string& n, uint64_t v = 1) { add(id(n), v); }
    };
    inline Stats& stats() { static Stats s; return s; }

// named rare condition reached
#define SIM_PROBE(name) do { static int sim_pid_ = ::sim::stats().id(std::string("probe.") + (name)); ::sim::stats().add(sim_pid_); } while (0)
#define SIM_COUNT(name) do { static int sim_cid_ = ::sim::stats().id(name); ::sim::stats().add(sim_cid_); } while (0)

    /*********************
     * fault engine      *
     *********************/

    enum { MAX_FKIND = 16 };

    struct FaultState
    {
        bool window = false;            // inside a step's fault window
        int kind = 0;                   // armed kind (0 = none)
        uint64_t k = 0;                 // fire at the k-th point of that kind (0-based)
        bool fired = false;
        uint64_t seen[MAX_FKIND] = {};  // fault points reached in this window, per kind
        int suspend = 0;                // >0: harness-internal code, no faults
    };
    inline FaultState& fstate() { static FaultState f; return f; }

    struct Injected : std::exception
    {
        const char* what() const noexcept override { return "sim::Injected"; }
    };

    // returns true when the fault fires (caller decides how to fail)
    inline bool fault_hit(int kind)
    {
        FaultState& f = fstate();
        if (!f.window || f.suspend) return false;
        uint64_t n = f.seen[kind]++;
        if (f.kind == kind && !f.fired && n == f.k) { f.fired = true; return true; }
        return false;
    }
    inline void fault_point(int kind)
    {
        if (fault_hit(kind)) throw Injected();
    }

    struct Suspend
    {
        Suspend() { ++fstate().suspend; }
        ~Suspend() { --fstate().suspend; }
    };

    struct FaultWindow
    {
        explicit FaultWindow(const Step& s)
        {
            FaultState& f = fstate();
            f.window = true; f.kind = s.fkind; f.k = s.fk; f.fired = false;
            std::memset(f.seen, 0, sizeof(f.seen));
        }
        ~FaultWindow() { fstate().window = false; fstate().kind = 0; }
        bool fired() const { return fstate().fired; }
        uint64_t seen(int kind) const { return fstate().seen[kind]; }
    };

    /*********************
     * run context       *
     *********************/

    struct Run
    {
        const Plan* plan = nullptr;
        bool trace = false;
        uint64_t digest = 0xcbf29ce484222325ULL;
        size_t step = 0;
        unsigned changing = 0;          // state-changing steps executed
        unsigned fired = 0;             // faults fired
        unsigned configured = 0;        // faults attached
        bool abandoned = false;         // run stopped at an open known finding (set by harness never; by driver)
        std::vector<uint64_t> points;   // fault points seen per step (for enumeration), kind-specific by harness
        const char* cur_op = "-";       // for attribution of crashes
        std::string cur_qual;
        unsigned callers = 0;           // >0: the steps of this run are issued from that many OS threads, one at a time

        void dig(uint64_t v)
        {
            for (int i = 0; i < 8; ++i) { digest ^= (v >> (8 * i)) & 0xff; digest *= 0x100000001b3ULL; }
        }
        void dig(const void* p, size_t n)
        {
            const unsigned char* c = static_cast<const unsigned char*>(p);
            for (size_t i = 0; i < n; ++i) { digest ^= c[i]; digest *= 0x100000001b3ULL; }
            dig(static_cast<uint64_t>(n));
        }
        void dig(const std::string& s) { dig(s.data(), s.size()); }
        void abstract(uint64_t a) { stats().abstract.insert(a); }
    };

    /*********************
     * dirty memory, red zones
     *********************/

    inline void poison(const void* p, size_t n)
    {
#if SIM_ASAN
        ASAN_POISON_MEMORY_REGION(p, n);
#else
        (void)p; (void)n;
#endif
    }
    inline void unpoison(const void* p, size_t n)
    {
#if SIM_ASAN
        ASAN_UNPOISON_MEMORY_REGION(p, n);
#else
        (void)p; (void)n;
#endif
    }

    // Storage for one object of type T with seeded garbage underneath and
    // canary-filled, ASan-poisoned red zones on both sides.
    template <class T, size_t RZ = 64>
    struct Slot
    {
        static constexpr size_t slack = 16;
        alignas(64) unsigned char pre[RZ];
        alignas(64) unsigned char body[sizeof(T) + slack];
        unsigned char post[RZ];
        size_t off = 0;
        bool live = false;
        uint64_t canary = 0;

        Slot() { std::memset(pre, 0, RZ); std::memset(post, 0, RZ); std::memset(body, 0, sizeof(body)); }
        Slot(const Slot&) = delete;
        ~Slot() { unguard(); }

        T* ptr() { return reinterpret_cast<T*>(body + off); }
        const T* ptr() const { return reinterpret_cast<const T*>(body + off); }
        T& get() { return *ptr(); }

        unsigned char cbyte(size_t i) const { return static_cast<unsigned char>((canary >> (8 * (i % 8))) ^ (i * 37)); }

        // fill with garbage, choose the placement offset, arm the red zones
        void prepare(Rng& env, uint64_t raw_off)
        {
            unguard();
            size_t al = alignof(T);
            off = (raw_off % slack);
            off -= off % al;
            if (off + sizeof(T) > sizeof(body)) off = 0;
            for (size_t i = 0; i < sizeof(body); ++i) body[i] = env.byte() | 1; // never a NUL: worst case for forgotten terminators
            canary = env.next();
            for (size_t i = 0; i < RZ; ++i) { pre[i] = cbyte(i); post[i] = cbyte(i + RZ); }
            guard();
        }
        void guard()
        {
            poison(pre, RZ); poison(post, RZ);
            // bytes of body outside the object are part of the red zone too
            if (off) poison(body, off);
            if (off + sizeof(T) < sizeof(body)) poison(body + off + sizeof(T), sizeof(body) - off - sizeof(T));
        }
        void unguard()
        {
            unpoison(pre, RZ); unpoison(post, RZ); unpoison(body, sizeof(body));
        }
        // true if intact
        bool canaries_ok()
        {
            unpoison(pre, RZ); unpoison(post, RZ);
            bool ok = true;
            for (size_t i = 0; i < RZ; ++i) { if (pre[i] != cbyte(i) || post[i] != cbyte(i + RZ)) { ok = false; break; } }
            poison(pre, RZ); poison(post, RZ);
            return ok;
        }
    };

    /*********************
     * lifetime-tracked element types
     *********************/

    enum { FK_THROW = 1, FK_ALLOC = 2, FK_STREAM = 3, FK_SYSCALL = 4 };

    struct Registry
    {
        struct Info { int tag; uint64_t id; bool moved; };
        std::map<const void*, Info> live;
        uint64_t constructed = 0, destroyed = 0, copies = 0, moves = 0, assigns = 0;
        std::string sigprefix = "C00";

        void reset() { live.clear(); constructed = destroyed = copies = moves = assigns = 0; }
        void on_construct(const void* p, int tag, uint64_t id, bool moved)
        {
            Suspend s;
            auto it = live.find(p);
            if (it != live.end())
                defer("lifetime", sigprefix + "/lifetime/construct-over-live", "object constructed over a live object");
            live[p] = Info{tag, id, moved};
            ++constructed;
        }
        void on_destroy(const void* p, int tag)
        {
            Suspend s;
            auto it = live.find(p);
            if (it == live.end())
            {
                defer("lifetime", sigprefix + "/lifetime/destroy-not-live", "destructor run on an object that is not live (double destruction or never constructed)");
                return;
            }
            if (it->second.tag != tag)
                defer("lifetime", sigprefix + "/lifetime/destroy-wrong-type", "destructor of another type run on a live object");
            live.erase(it);
            ++destroyed;
        }
        bool is_live(const void* p, int tag) const
        {
            auto it = live.find(p);
            return it != live.end() && it->second.tag == tag;
        }
        void use(const void* p, int tag, const char* what)
        {
            Suspend s;
            if (!is_live(p, tag))
                defer("lifetime", sigprefix + "/lifetime/use-not-live", std::string(what) + " on an object that is not live");
        }
        void set(const void* p, uint64_t id, bool moved)
        {
            auto it = live.find(p);
            if (it != live.end()) { it->second.id = id; it->second.moved = moved; }
        }
    };
    inline Registry& registry() { static Registry r; return r; }

    // Payload with identity.  Every special member first passes a fault point
    // (before modifying anything, so the payload itself is strongly exception
    // safe and every anomaly observed is the container's).
    template <int Tag, size_t Pad, bool NothrowMove, bool CanThrowCopy = true, size_t Align = 8>
    struct alignas(Align) Tracked
    {
        static constexpr int tag = Tag;
        uint64_t id;
        uint32_t where;     // low bits of the address the object was constructed at (never logged or digested):
                            // an object whose bytes were relocated without running a constructor no longer matches
        bool moved;
        unsigned char pad[Pad ? Pad : 1];

        static uint32_t here(const void* p) { return static_cast<uint32_t>(reinterpret_cast<uintptr_t>(p) >> 3) ^ 0x5bd1e995u; }
        // called by every constructor: storage handed out for this type has to respect its alignment
        static uint32_t born(const void* p)
        {
            if (reinterpret_cast<uintptr_t>(p) % Align != 0)
            {
                Suspend s;
                defer("lifetime", registry().sigprefix + "/lifetime/misaligned", "an object with alignment " + std::to_string(Align) + " was constructed at an address that is not a multiple of it");
            }
            return here(p);
        }
        bool in_place() const { return where == here(this); }
        void check_place(const char* what) const
        {
            if (!in_place())
            {
                Suspend s;
                defer("lifetime", registry().sigprefix + "/lifetime/relocated", std::string(what) + " an object whose bytes were moved here without running a constructor");
            }
        }

        Tracked() : id(0), where(born(this)), moved(false)
        {
            fault_point(FK_THROW);
            registry().on_construct(this, Tag, id, moved);
        }
        explicit Tracked(uint64_t v) : id(v), where(born(this)), moved(false)
        {
            fault_point(FK_THROW);
            registry().on_construct(this, Tag, id, moved);
        }
        struct no_fault {};
        explicit Tracked(no_fault) noexcept : id(0), where(born(this)), moved(false)     // a constructor that cannot fail
        {
            registry().on_construct(this, Tag, id, moved);
        }
        Tracked(const Tracked& o) : id(0), where(born(this)), moved(false)
        {
            registry().use(&o, Tag, "copy construction from");
            o.check_place("copy construction from");
            if (CanThrowCopy) fault_point(FK_THROW);
            id = o.id; moved = o.moved;
            registry().on_construct(this, Tag, id, moved);
            ++registry().copies;
        }
        Tracked(Tracked&& o) noexcept(NothrowMove) : id(0), where(born(this)), moved(false)
        {
            registry().use(&o, Tag, "move construction from");
            o.check_place("move construction from");
            if (!NothrowMove) fault_point(FK_THROW);
            id = o.id; moved = o.moved;
            o.moved = true; registry().set(&o, o.id, true);
            registry().on_construct(this, Tag, id, moved);
            ++registry().moves;
        }
        Tracked& operator=(const Tracked& o)
        {
            registry().use(this, Tag, "copy assignment to");
            registry().use(&o, Tag, "copy assignment from");
            check_place("copy assignment to"); o.check_place("copy assignment from");
            if (CanThrowCopy) fault_point(FK_THROW);
            id = o.id; moved = o.moved;
            registry().set(this, id, moved);
            ++registry().assigns;
            return *this;
        }
        Tracked& operator=(Tracked&& o) noexcept(NothrowMove)
        {
            registry().use(this, Tag, "move assignment to");
            registry().use(&o, Tag, "move assignment from");
            check_place("move assignment to"); o.check_place("move assignment from");
            if (!NothrowMove) fault_point(FK_THROW);
            if (this != &o)
            {
                id = o.id; moved = o.moved;
                o.moved = true; registry().set(&o, o.id, true);
            }
            registry().set(this, id, moved);
            ++registry().assigns;
            return *this;
        }
        ~Tracked() { check_place("destruction of"); registry().on_destroy(this, Tag); }

        friend bool operator==(const Tracked& a, const Tracked& b) { return a.id == b.id; }
        friend bool operator!=(const Tracked& a, const Tracked& b) { return a.id != b.id; }
        friend bool operator<(const Tracked& a, const Tracked& b) { return a.id < b.id; }
        friend bool operator>(const Tracked& a, const Tracked& b) { return a.id > b.id; }
        friend bool operator<=(const Tracked& a, const Tracked& b) { return a.id <= b.id; }
        friend bool operator>=(const Tracked& a, const Tracked& b) { return a.id >= b.id; }
    };

    // was the object constructed where it is now?  (always true for untracked types)
    template <class T> inline bool placed(const T&) { return true; }
    template <int Tag, size_t Pad, bool NM, bool CC, size_t Al>
    inline bool placed(const Tracked<Tag, Pad, NM, CC, Al>& t) { return t.in_place(); }

    /*********************
     * allocator seam
     *********************/

    template <class T>
    struct FailingAllocator
    {
        using value_type = T;
        FailingAllocator() noexcept {}
        template <class U> FailingAllocator(const FailingAllocator<U>&) noexcept {}
        template <class U> struct rebind { using other = FailingAllocator<U>; };
        T* allocate(size_t n)
        {
            if (fault_hit(FK_ALLOC)) throw std::bad_alloc();
            if (n > (size_t(1) << 40) / sizeof(T)) throw std::bad_alloc();          // more than this machine has: refused, as a real allocator would
            void* p = ::operator new(n * sizeof(T));
            std::memset(p, 0xA5, n * sizeof(T));                                    // fresh memory is not zero
            return static_cast<T*>(p);
        }
        void deallocate(T* p, size_t) noexcept { ::operator delete(p); }
        // a default-initialising allocator (a common idiom): "default-inserted" elements of trivial type are left as the memory
        // was, so a container that needs zeros has to ask for them
        template <class U> void construct(U* p) { ::new (static_cast<void*>(p)) U; }
        template <class U, class A0, class... Args>
        void construct(U* p, A0&& a0, Args&&... args) { ::new (static_cast<void*>(p)) U(std::forward<A0>(a0), std::forward<Args>(args)...); }
        template <class U> bool operator==(const FailingAllocator<U>&) const noexcept { return true; }
        template <class U> bool operator!=(const FailingAllocator<U>&) const noexcept { return false; }
    };

    /*********************
     * harness interface
     *********************/

    struct Cfg
    {
        std::string name;
        // generate the plan of a run (cfg already chosen); tier 0 = quick, 1 = thorough
        void (*gen)(Plan& plan, Rng& cfgrng, Rng& planrng, int tier);
        // execute it; throws Violation
        void (*exec)(const Plan& plan, Run& run);
        unsigned weight;
        bool thorough_only;
    };
    inline std::vector<Cfg>& cfgs() { static std::vector<Cfg> v; return v; }
    struct RegisterCfg
    {
        RegisterCfg(const std::string& name, void (*gen)(Plan&, Rng&, Rng&, int), void (*exec)(const Plan&, Run&),
                    unsigned weight = 1, bool thorough_only = false)
        {
            cfgs().push_back(Cfg{name, gen, exec, weight, thorough_only});
        }
    };

    // provided by each harness (in the translation unit that defines SIMKIT_MAIN)
    extern const char* const harness_name;
    extern const bool caller_threads_enabled;      // false where a harness forks (one process per simulated installation)
    extern const char* const op_names[];
    extern const int op_count;
    extern const char* const fault_names[];   // indexed by fkind, MAX_FKIND entries or nullptr-terminated
    // does workload w admit cfg name?  (default: all)
    bool workload_admits(const std::string& workload, const std::string& cfg);
    // fault kind whose points are enumerated by --enumerate (0 = none)
    int enumerate_kind();

    /*********************
     * plan text i/o
     *********************/

    inline const char* op_name(int op) { return (op >= 0 && op < op_count) ? op_names[op] : "?"; }
    inline int op_index(const std::string& n)
    {
        for (int i = 0; i < op_count; ++i) if (n == op_names[i]) return i;
        return -1;
    }
    inline const char* fault_name(int k)
    {
        for (int i = 0; i <= k; ++i) if (fault_names[i] == nullptr) return "?";
        return fault_names[k];
    }
    inline int fault_index(const std::string& n)
    {
        for (int i = 0; fault_names[i] != nullptr; ++i) if (n == fault_names[i]) return i;
        return -1;
    }

    inline std::string step_text(const Step& s)
    {
        std::ostringstream o;
        o << "step " << s.actor << ' ' << op_name(s.op) << ' ' << s.a << ' ' << s.b << ' ' << s.c << ' ' << s.d;
        if (s.fkind) o << " fault " << fault_name(s.fkind) << ' ' << s.fk;
        return o.str();
    }

    inline std::string plan_text(const Plan& p)
    {
        std::ostringstream o;
        o << "harness " << p.harness << "\n";
        o << "cfg " << p.cfg << "\n";
        o << "workload " << p.workload << "\n";
        o << "seed " << p.seed << "\n";
        o << "variant " << p.variant << "\n";
        o << "params";
        for (uint64_t v : p.params) o << ' ' << v;
        o << "\n";
        for (const Step& s : p.steps) o << step_text(s) << "\n";
        return o.str();
    }

    inline bool parse_plan(std::istream& in, Plan& p, std::string& err)
    {
        std::string line;
        while (std::getline(in, line))
        {
            if (line.empty() || line[0] == '#') continue;
            std::istringstream ls(line);
            std::string key; ls >> key;
            if (key == "harness") ls >> p.harness;
            else if (key == "cfg") ls >> p.cfg;
            else if (key == "workload") ls >> p.workload;
            else if (key == "seed") ls >> p.seed;
            else if (key == "variant") ls >> p.variant;
            else if (key == "params") { uint64_t v; while (ls >> v) p.params.push_back(v); }
            else if (key == "step")
            {
                Step s; std::string opn;
                ls >> s.actor >> opn >> s.a >> s.b >> s.c >> s.d;
                s.op = op_index(opn);
                if (s.op < 0) { err = "unknown op " + opn; return false; }
                std::string f;
                if (ls >> f)
                {
                    if (f != "fault") { err = "bad step line: " + line; return false; }
                    std::string fn; ls >> fn >> s.fk;
                    s.fkind = fault_index(fn);
                    if (s.fkind < 0) { err = "unknown fault " + fn; return false; }
                }
                p.steps.push_back(s);
            }
            // other keys (class, signature, digest, comments) are for the driver and ignored here
        }
        return true;
    }

    /*********************
     * caller threads
     *********************/

    // The actors of a plan are the library's callers.  In a share of the runs (decided by the run seed) every actor is a
    // real OS thread: the simulator hands each step to the thread of its actor and waits for it, so exactly one thread
    // runs at any time and the interleaving is the plan's step order - a schedule the seed decides, replayed exactly.
    // State the library keeps per thread (or keyed by thread) instead of per object shows as a model mismatch.
    struct Callers
    {
        struct Worker
        {
            std::mutex m;
            std::condition_variable cv;
            void (*fn)(void*) = nullptr;
            void* arg = nullptr;
            bool done = true;
            std::exception_ptr err;
        };
        enum { N = 2 };                 // besides the main thread
        Worker w[N];
        bool started = false;

        static void loop(Worker* x)
        {
            for (;;)
            {
                std::unique_lock<std::mutex> l(x->m);
                x->cv.wait(l, [&] { return x->fn != nullptr; });
                void (*fn)(void*) = x->fn;
                void* arg = x->arg;
                l.unlock();
                std::exception_ptr e;
                try { fn(arg); } catch (...) { e = std::current_exception(); }
                l.lock();
                x->err = e; x->fn = nullptr; x->done = true;
                l.unlock();
                x->cv.notify_all();
            }
        }
        void run_on(unsigned t, void (*fn)(void*), void* arg)
        {
            if (t == 0) { fn(arg); return; }
            if (!started)
            {
                for (int i = 0; i < N; ++i) std::thread(loop, &w[i]).detach();
                started = true;
            }
            Worker& x = w[(t - 1) % N];
            {
                std::lock_guard<std::mutex> l(x.m);
                x.fn = fn; x.arg = arg; x.done = false; x.err = nullptr;
            }
            x.cv.notify_all();
            std::unique_lock<std::mutex> l(x.m);
            x.cv.wait(l, [&] { return x.done; });
            std::exception_ptr e = x.err;
            x.err = nullptr;
            l.unlock();
            if (e) std::rethrow_exception(e);
        }
    };
    inline Callers& callers() { static Callers* c = new Callers; return *c; }     // never destroyed: its threads never end

    inline unsigned callers_of(uint64_t runseed) { return (mix(runseed, TAG_CALLERS, 0) & 3) == 0 ? 1 + Callers::N : 0; }

    // runs f as the caller that issues step st
    template <class F>
    inline void as_caller(Run& run, const Step& st, F&& f)
    {
        if (!run.callers) { f(); return; }
        // which caller: a function of the step's own content, so that it neither follows the object operated on nor
        // changes when the minimiser drops other steps
        unsigned t = static_cast<unsigned>(mix(TAG_CALLERS, st.a * 31 + st.b * 17 + st.c * 7 + st.d, static_cast<uint64_t>(st.op) * 5 + static_cast<uint64_t>(st.actor)) % run.callers);
        if (t) stats().add("callers.steps_on_second_or_third_thread");
        callers().run_on(t, [](void* a) { (*static_cast<typename std::remove_reference<F>::type*>(a))(); }, &f);
    }

    /*********************
     * step scope
     *********************/

    struct StepScope
    {
        Run& run;
        const Step& st;
        FaultWindow w;
        StepScope(Run& r, const Step& s, const char* qual = "-") : run(r), st(s), w(s)
        {
            r.cur_op = op_name(s.op);
            if (r.trace) { std::printf("T %zu %s %s\n", r.step, r.cur_op, qual); std::fflush(stdout); }
            if (s.fkind) ++r.configured;
        }
        ~StepScope()
        {
            int ek = enumerate_kind();
            if (run.points.size() <= run.step) run.points.resize(run.step + 1, 0);
            run.points[run.step] = ek ? w.seen(ek) : 0;
            if (st.fkind)
            {
                if (w.fired())
                {
                    ++run.fired;
                    stats().add(std::string("fault.fired.") + fault_name(st.fkind));
                }
                else
                    stats().add(std::string("fault.configured_not_fired.") + fault_name(st.fkind));
            }
            ++run.step;
        }
    };
}

#ifdef SIMKIT_MAIN
#  include "simkit_main.hpp"
#endif

#endif
