// simkit worker main: included once per harness binary (define SIMKIT_MAIN before
// including simkit.hpp).
//
// Protocol on stdout (one record per line, flushed):
//   B <runseed> <variant>                         about to execute this run
//   R <runseed> <variant> <digest> <steps> <nontrivial> <fired>
//   V <runseed> <variant> <class> <signature> <step> <digest> <message...>
//   T <step> <op> <qualifier>                     (exec --trace only) about to execute this step
//   S <name>=<value> ...                          counters of this worker
//   A <hex> ...                                   abstract states seen by this worker
//   E                                             clean end of worker
#ifndef SIMKIT_MAIN_HPP
#define SIMKIT_MAIN_HPP

#include <unistd.h>

#if SIM_ASAN
extern "C" __attribute__((used, visibility("default"))) const char* __asan_default_options()
{
    return "exitcode=77:detect_leaks=0:abort_on_error=0:detect_stack_use_after_return=1:allocator_may_return_null=1:handle_abort=1";
}
#endif

namespace sim
{
    inline std::vector<const Cfg*> admitted(const std::string& workload, int tier, const std::string& only)
    {
        std::vector<const Cfg*> v;
        for (const Cfg& c : cfgs())
        {
            if (!only.empty() && c.name != only) continue;
            if (only.empty() && c.thorough_only && tier == 0) continue;
            if (!workload_admits(workload, c.name)) continue;
            v.push_back(&c);
        }
        std::sort(v.begin(), v.end(), [](const Cfg* a, const Cfg* b) { return a->name < b->name; });
        return v;
    }

    inline const Cfg* find_cfg(const std::string& name)
    {
        for (const Cfg& c : cfgs()) if (c.name == name) return &c;
        return nullptr;
    }

    // variant: "-" as generated | "e" faults stripped | "e:<step>:<k>" stripped + one enumerated fault
    inline bool make_plan(Plan& p, uint64_t runseed, const std::string& workload, int tier,
                          const std::string& only, const std::string& variant)
    {
        std::vector<const Cfg*> adm = admitted(workload, tier, only);
        if (adm.empty()) return false;
        Rng cfgrng = stream(runseed, TAG_CFG);
        Rng planrng = stream(runseed, TAG_PLAN);
        uint64_t total = 0;
        for (const Cfg* c : adm) total += c->weight;
        uint64_t pick = cfgrng.below(total);
        const Cfg* chosen = adm.back();
        for (const Cfg* c : adm) { if (pick < c->weight) { chosen = c; break; } pick -= c->weight; }
        p.harness = harness_name;
        p.cfg = chosen->name;
        p.workload = workload;
        p.seed = runseed;
        p.variant = variant;
        chosen->gen(p, cfgrng, planrng, tier);
        if (variant != "-")
        {
            for (Step& s : p.steps) { s.fkind = 0; s.fk = 0; }
            if (variant.size() > 2)
            {
                unsigned long long st = 0, k = 0;
                if (std::sscanf(variant.c_str(), "e:%llu:%llu", &st, &k) == 2 && st < p.steps.size())
                {
                    p.steps[st].fkind = enumerate_kind();
                    p.steps[st].fk = k;
                }
            }
        }
        return true;
    }

    struct Outcome { bool ok; Violation v; uint64_t digest; size_t steps; bool nontrivial; unsigned fired; std::vector<uint64_t> points; };

    inline Outcome execute(const Plan& p, bool trace)
    {
        Outcome o{};
        const Cfg* c = find_cfg(p.cfg);
        Run run;
        run.plan = &p;
        run.trace = trace;
        run.callers = caller_threads_enabled ? callers_of(p.seed) : 0;
        if (run.callers) stats().add("callers.runs_issued_from_three_threads");
        clear_pending();
        fstate() = FaultState();
        if (!c)
        {
            o.ok = false; o.v = Violation{"machinery", "machinery/unknown-cfg", "unknown cfg " + p.cfg};
            return o;
        }
        try
        {
            c->exec(p, run);
            raise_pending();
            o.ok = true;
        }
        catch (const Violation& v) { o.ok = false; o.v = v; }
        catch (const Injected&)
        {
            o.ok = false; o.v = Violation{"machinery", "machinery/injected-escaped", "injected fault escaped the harness"};
        }
        catch (const std::exception& e)
        {
            o.ok = false;
            o.v = Violation{"exception", std::string("machinery/unexpected-exception/") + run.cur_op, std::string("unexpected exception escaped the harness: ") + e.what()};
        }
        fstate().window = false;
        o.digest = run.digest;
        o.steps = run.step;
        bool has_faults = false;
        for (const Step& s : p.steps) if (s.fkind) has_faults = true;
        o.nontrivial = run.changing >= 2 && (!has_faults || run.fired >= 1);
        o.fired = run.fired;
        o.points = run.points;
        return o;
    }

    inline void report(const Plan& p, const Outcome& o)
    {
        if (o.ok)
            std::printf("R %llu %s %016llx %zu %d %u\n", (unsigned long long)p.seed, p.variant.c_str(),
                        (unsigned long long)o.digest, o.steps, o.nontrivial ? 1 : 0, o.fired);
        else
        {
            std::string m = o.v.msg;
            for (char& ch : m) if (ch == '\n' || ch == '\r') ch = ' ';
            std::printf("V %llu %s %s %s %zu %016llx %s\n", (unsigned long long)p.seed, p.variant.c_str(),
                        o.v.cls.c_str(), o.v.sig.c_str(), o.steps, (unsigned long long)o.digest, m.c_str());
        }
        std::fflush(stdout);
    }

    // prints the counters accumulated since the last dump and resets them
    inline void dump_stats(bool final = true)
    {
        Stats& s = stats();
        std::printf("S");
        for (size_t i = 0; i < s.names.size(); ++i)
        {
            if (s.values[i]) std::printf(" %s=%llu", s.names[i].c_str(), (unsigned long long)s.values[i]);
            s.values[i] = 0;
        }
        std::printf("\nA");
        std::vector<uint64_t> a(s.abstract.begin(), s.abstract.end());
        std::sort(a.begin(), a.end());
        for (uint64_t h : a) std::printf(" %llx", (unsigned long long)h);
        s.abstract.clear();
        std::printf("\n");
        if (final) std::printf("E\n");
        std::fflush(stdout);
    }

    inline void on_terminate()
    {
        const char m[] = "X terminate\n";
        ssize_t r = ::write(1, m, sizeof(m) - 1); (void)r;
        _exit(78);
    }

    inline int usage()
    {
        std::fprintf(stderr,
            "usage: <harness> list\n"
            "       <harness> run --seed B --start I --stride W --total N [--tier quick|thorough] [--workload W] [--cfg NAME] [--enumerate]\n"
            "       <harness> gen --runseed R [--tier T] [--workload W] [--cfg NAME] [--variant V]\n"
            "       <harness> exec --plan FILE [--trace]\n");
        return 2;
    }

    inline int sim_main(int argc, char** argv)
    {
        std::set_terminate(on_terminate);
        if (argc < 2) return usage();
        std::string mode = argv[1];
        uint64_t seed = 1, start = 0, stride = 1, total = 0, runseed = 0;
        int tier = 0;
        bool enumerate = false, trace = false;
        std::string workload = "-", only, variant = "-", planfile;
        for (int i = 2; i < argc; ++i)
        {
            std::string a = argv[i];
            auto val = [&](void) -> std::string { return (i + 1 < argc) ? std::string(argv[++i]) : std::string(); };
            if (a == "--seed") seed = std::strtoull(val().c_str(), nullptr, 10);
            else if (a == "--start") start = std::strtoull(val().c_str(), nullptr, 10);
            else if (a == "--stride") stride = std::strtoull(val().c_str(), nullptr, 10);
            else if (a == "--total") total = std::strtoull(val().c_str(), nullptr, 10);
            else if (a == "--runseed") runseed = std::strtoull(val().c_str(), nullptr, 10);
            else if (a == "--tier") tier = (val() == "thorough") ? 1 : 0;
            else if (a == "--workload") workload = val();
            else if (a == "--cfg") only = val();
            else if (a == "--variant") variant = val();
            else if (a == "--plan") planfile = val();
            else if (a == "--enumerate") enumerate = true;
            else if (a == "--trace") trace = true;
            else return usage();
        }
        if (stride == 0) stride = 1;

        if (mode == "list")
        {
            std::printf("harness %s\n", harness_name);
            for (const Cfg& c : cfgs()) std::printf("cfg %s weight=%u thorough_only=%d\n", c.name.c_str(), c.weight, c.thorough_only ? 1 : 0);
            for (int i = 0; i < op_count; ++i) std::printf("op %s\n", op_names[i]);
            return 0;
        }
        if (mode == "gen")
        {
            Plan p;
            if (!make_plan(p, runseed, workload, tier, only, variant)) { std::fprintf(stderr, "no cfg admitted\n"); return 2; }
            std::fputs(plan_text(p).c_str(), stdout);
            return 0;
        }
        if (mode == "exec")
        {
            std::ifstream in(planfile);
            if (!in) { std::fprintf(stderr, "cannot read %s\n", planfile.c_str()); return 2; }
            Plan p; std::string err;
            if (!parse_plan(in, p, err)) { std::fprintf(stderr, "bad plan: %s\n", err.c_str()); return 2; }
            if (p.harness != harness_name) { std::fprintf(stderr, "plan is for harness %s\n", p.harness.c_str()); return 2; }
            std::printf("B %llu %s\n", (unsigned long long)p.seed, p.variant.c_str());
            std::fflush(stdout);
            Outcome o = execute(p, trace);
            report(p, o);
            dump_stats();
            return 0;
        }
        if (mode == "run")
        {
            uint64_t hid = strhash(harness_name) ^ (strhash(workload.c_str()) * 31);
            uint64_t done = 0;
            for (uint64_t i = start; i < total; i += stride)
            {
                uint64_t rs = mix(seed, hid, i);
                Plan p;
                std::string v0 = enumerate ? "e" : "-";
                if (!make_plan(p, rs, workload, tier, only, v0)) { std::fprintf(stderr, "no cfg admitted\n"); return 2; }
                std::printf("B %llu %s\n", (unsigned long long)rs, v0.c_str());
                std::fflush(stdout);
                Outcome o = execute(p, false);
                report(p, o);
                if ((++done & 255) == 0) dump_stats(false);     // counters survive a later crash of this worker
                if (enumerate && o.ok)
                {
                    for (size_t s = 0; s < o.points.size() && s < p.steps.size(); ++s)
                        for (uint64_t k = 0; k < o.points[s]; ++k)
                        {
                            Plan q = p;
                            char buf[64];
                            std::snprintf(buf, sizeof(buf), "e:%zu:%llu", s, (unsigned long long)k);
                            q.variant = buf;
                            q.steps[s].fkind = enumerate_kind();
                            q.steps[s].fk = k;
                            std::printf("B %llu %s\n", (unsigned long long)rs, buf);
                            std::fflush(stdout);
                            Outcome oq = execute(q, false);
                            report(q, oq);
                        }
                }
            }
            dump_stats();
            return 0;
        }
        return usage();
    }
}

int main(int argc, char** argv) { return sim::sim_main(argc, argv); }

#endif
